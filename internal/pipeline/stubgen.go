package pipeline

import (
	"bytes"
	"fmt"
	"go/ast"
	"go/format"
	"go/parser"
	"go/printer"
	"go/token"
	"os"
	"os/exec"
	"path/filepath"
	"regexp"
	"sort"
	"strconv"
	"strings"
)

// svcPkg describes one generated service package.
type svcPkg struct {
	Dir         string // directory name under gen/
	Alias       string
	ServiceName string // value of the ServiceName constant
	Methods     []stubMethod
	Auther      []stubMethod
	Types       []string
	Makers      []string // Make<Error>(err error) *goa.ServiceError constructors of the service package
	HasHTTP     bool
	HasGRPC     bool
	GRPCReg     string            // name of the pb.Register<Svc>Server function
	Imports     map[string]string // alias -> path, for selector expressions in signatures
}

type stubMethod struct {
	Name    string
	Params  []string // rendered types (qualified) of the parameters
	Results []string // rendered types (qualified) of the results
}

var predeclared = map[string]bool{"bool": true, "byte": true, "complex128": true, "complex64": true, "error": true, "float32": true, "float64": true, "int": true, "int16": true, "int32": true, "int64": true, "int8": true, "rune": true, "string": true, "uint": true, "uint16": true, "uint32": true, "uint64": true, "uint8": true, "uintptr": true, "any": true}

// qualify renders a type expression of the service package for use from
// another package: unqualified type names get the package alias.
func qualify(fset *token.FileSet, e ast.Expr, alias string) string {
	var rewrite func(e ast.Expr) ast.Expr
	rewrite = func(e ast.Expr) ast.Expr {
		switch t := e.(type) {
		case *ast.Ident:
			if predeclared[t.Name] {
				return t
			}
			return &ast.SelectorExpr{X: ast.NewIdent(alias), Sel: ast.NewIdent(t.Name)}
		case *ast.StarExpr:
			return &ast.StarExpr{X: rewrite(t.X)}
		case *ast.ArrayType:
			return &ast.ArrayType{Len: t.Len, Elt: rewrite(t.Elt)}
		case *ast.MapType:
			return &ast.MapType{Key: rewrite(t.Key), Value: rewrite(t.Value)}
		case *ast.SelectorExpr:
			return t
		case *ast.InterfaceType, *ast.StructType, *ast.FuncType:
			return t
		case *ast.Ellipsis:
			return &ast.Ellipsis{Elt: rewrite(t.Elt)}
		}
		return e
	}
	var buf bytes.Buffer
	_ = printer.Fprint(&buf, fset, rewrite(e))
	return buf.String()
}

func parseMethods(fset *token.FileSet, it *ast.InterfaceType, alias string) []stubMethod {
	var out []stubMethod
	for _, m := range it.Methods.List {
		ft, ok := m.Type.(*ast.FuncType)
		if !ok || len(m.Names) == 0 {
			continue
		}
		sm := stubMethod{Name: m.Names[0].Name}
		if ft.Params != nil {
			for _, p := range ft.Params.List {
				n := len(p.Names)
				if n == 0 {
					n = 1
				}
				for i := 0; i < n; i++ {
					sm.Params = append(sm.Params, qualify(fset, p.Type, alias))
				}
			}
		}
		if ft.Results != nil {
			for _, p := range ft.Results.List {
				n := len(p.Names)
				if n == 0 {
					n = 1
				}
				for i := 0; i < n; i++ {
					sm.Results = append(sm.Results, qualify(fset, p.Type, alias))
				}
			}
		}
		out = append(out, sm)
	}
	return out
}

// scanServices parses every gen/<dir>/service.go of a run.
func scanServices(r *Run) ([]*svcPkg, error) {
	entries, err := os.ReadDir(filepath.Join(r.Dir, "gen"))
	if err != nil {
		return nil, err
	}
	var out []*svcPkg
	for _, e := range entries {
		if !e.IsDir() {
			continue
		}
		path := filepath.Join(r.Dir, "gen", e.Name(), "service.go")
		if _, err := os.Stat(path); err != nil {
			continue
		}
		fset := token.NewFileSet()
		f, err := parser.ParseFile(fset, path, nil, 0)
		if err != nil {
			return nil, err
		}
		sp := &svcPkg{Dir: e.Name(), Alias: fmt.Sprintf("svc%d", len(out)+1), Imports: map[string]string{}}
		for _, im := range f.Imports {
			p, _ := strconv.Unquote(im.Path.Value)
			name := p[strings.LastIndex(p, "/")+1:]
			if im.Name != nil {
				name = im.Name.Name
			}
			sp.Imports[name] = p
		}
		for _, d := range f.Decls {
			if fd, isFunc := d.(*ast.FuncDecl); isFunc && fd.Recv == nil && strings.HasPrefix(fd.Name.Name, "Make") && fd.Type.Params != nil && len(fd.Type.Params.List) == 1 && fd.Type.Results != nil && len(fd.Type.Results.List) == 1 {
				sp.Makers = append(sp.Makers, fd.Name.Name)
			}
			gd, ok := d.(*ast.GenDecl)
			if !ok {
				continue
			}
			for _, s := range gd.Specs {
				switch ts := s.(type) {
				case *ast.TypeSpec:
					if it, ok := ts.Type.(*ast.InterfaceType); ok {
						switch ts.Name.Name {
						case "Service":
							sp.Methods = parseMethods(fset, it, sp.Alias)
						case "Auther":
							sp.Auther = parseMethods(fset, it, sp.Alias)
						}
						continue
					}
					if ts.Name.IsExported() && ts.TypeParams == nil {
						sp.Types = append(sp.Types, ts.Name.Name)
					}
				case *ast.ValueSpec:
					for i, n := range ts.Names {
						if n.Name == "ServiceName" && i < len(ts.Values) {
							if bl, ok := ts.Values[i].(*ast.BasicLit); ok {
								sp.ServiceName, _ = strconv.Unquote(bl.Value)
							}
						}
					}
				}
			}
		}
		// endpoints.go declares <Method>RequestData / <Method>ResponseData for
		// methods that stream the HTTP request / response body themselves
		// (SkipRequestBodyEncodeDecode / SkipResponseBodyEncodeDecode)
		if ef, err := parser.ParseFile(token.NewFileSet(), filepath.Join(r.Dir, "gen", e.Name(), "endpoints.go"), nil, 0); err == nil {
			for _, d := range ef.Decls {
				if gd, ok := d.(*ast.GenDecl); ok {
					for _, s := range gd.Specs {
						if ts, ok := s.(*ast.TypeSpec); ok && ts.Name.IsExported() && (strings.HasSuffix(ts.Name.Name, "RequestData") || strings.HasSuffix(ts.Name.Name, "ResponseData")) {
							if _, isStruct := ts.Type.(*ast.StructType); isStruct {
								sp.Types = append(sp.Types, ts.Name.Name)
							}
						}
					}
				}
			}
		}
		if _, err := os.Stat(filepath.Join(r.Dir, "gen", "http", e.Name(), "server", "server.go")); err == nil {
			sp.HasHTTP = true
		}
		if _, err := os.Stat(filepath.Join(r.Dir, "gen", "grpc", e.Name(), "server", "server.go")); err == nil {
			if files, _ := filepath.Glob(filepath.Join(r.Dir, "gen", "grpc", e.Name(), "pb", "*_grpc.pb.go")); len(files) > 0 {
				if src, err := os.ReadFile(files[0]); err == nil {
					if mm := regexp.MustCompile(`(?m)^func (Register\w+Server)\(`).FindSubmatch(src); mm != nil {
						sp.HasGRPC = true
						sp.GRPCReg = string(mm[1])
					}
				}
			}
		}
		sort.Strings(sp.Types)
		out = append(out, sp)
	}
	return out, nil
}

// WriteGlue emits <run>/harnessmain/main.go.
func (s *Session) WriteGlue(r *Run) error {
	svcs, err := scanServices(r)
	if err != nil {
		return err
	}
	var b bytes.Buffer
	b.WriteString("// Code generated by the verifier (stubgen); DO NOT EDIT.\n\npackage main\n\nimport (\n\t\"context\"\n\t\"reflect\"\n\n\t\"verif/harness\"\n")
	extra := map[string]string{}
	for _, sp := range svcs {
		fmt.Fprintf(&b, "\t%s %q\n", sp.Alias, r.Pkg+"/gen/"+sp.Dir)
		if sp.HasHTTP {
			fmt.Fprintf(&b, "\t%sserver %q\n", sp.Alias, r.Pkg+"/gen/http/"+sp.Dir+"/server")
			fmt.Fprintf(&b, "\t%sclient %q\n", sp.Alias, r.Pkg+"/gen/http/"+sp.Dir+"/client")
		}
		if sp.HasGRPC {
			fmt.Fprintf(&b, "\t%sgserver %q\n", sp.Alias, r.Pkg+"/gen/grpc/"+sp.Dir+"/server")
			fmt.Fprintf(&b, "\t%sgclient %q\n", sp.Alias, r.Pkg+"/gen/grpc/"+sp.Dir+"/client")
			fmt.Fprintf(&b, "\t%spb %q\n", sp.Alias, r.Pkg+"/gen/grpc/"+sp.Dir+"/pb")
		}
		// imports referenced by signatures
		for _, ms := range [][]stubMethod{sp.Methods, sp.Auther} {
			for _, m := range ms {
				for _, t := range append(append([]string{}, m.Params...), m.Results...) {
					for alias, path := range sp.Imports {
						if alias == "context" {
							continue
						}
						if regexp.MustCompile(`(^|[^A-Za-z0-9_.])` + regexp.QuoteMeta(alias) + `\.`).MatchString(t) {
							extra[alias] = path
						}
					}
				}
			}
		}
	}
	var aliases []string
	for a := range extra {
		aliases = append(aliases, a)
	}
	sort.Strings(aliases)
	for _, a := range aliases {
		fmt.Fprintf(&b, "\t%s %q\n", a, extra[a])
	}
	b.WriteString(")\n\nvar _ = context.Background\nvar _ = reflect.TypeOf\n\n")
	for _, sp := range svcs {
		fmt.Fprintf(&b, "type stub%s struct{ h *harness.H }\n\n", sp.Alias)
		for _, m := range sp.Methods {
			writeStubMethod(&b, sp, m, false)
		}
		for _, m := range sp.Auther {
			writeStubMethod(&b, sp, m, true)
		}
	}
	b.WriteString("func main() {\n\th := harness.New()\n")
	for _, sp := range svcs {
		fmt.Fprintf(&b, "\th.Register(harness.ServiceDef{\n\t\tName: %q,\n\t\tServiceType: reflect.TypeOf((*%s.Service)(nil)).Elem(),\n\t\tNewStub: func(h *harness.H) any { return &stub%s{h} },\n\t\tNewEndpoints: %s.NewEndpoints,\n", sp.ServiceName, sp.Alias, sp.Alias, sp.Alias)
		if sp.HasHTTP {
			fmt.Fprintf(&b, "\t\tNewServer: %sserver.New,\n\t\tMount: %sserver.Mount,\n\t\tNewClient: %sclient.NewClient,\n", sp.Alias, sp.Alias, sp.Alias)
		}
		if sp.HasGRPC {
			fmt.Fprintf(&b, "\t\tGRPCNewServer: %sgserver.New,\n\t\tGRPCRegister: %spb.%s,\n\t\tGRPCNewClient: %sgclient.NewClient,\n", sp.Alias, sp.Alias, sp.GRPCReg, sp.Alias)
		}
		b.WriteString("\t\tTypes: map[string]reflect.Type{\n")
		for _, t := range sp.Types {
			fmt.Fprintf(&b, "\t\t\t%q: reflect.TypeOf((*%s.%s)(nil)).Elem(),\n", t, sp.Alias, t)
		}
		b.WriteString("\t\t},\n\t\tMakers: map[string]any{\n")
		for _, mk := range sp.Makers {
			fmt.Fprintf(&b, "\t\t\t%q: %s.%s,\n", mk, sp.Alias, mk)
		}
		b.WriteString("\t\t},\n\t})\n")
	}
	b.WriteString("\th.Main()\n}\n")
	src, err := format.Source(b.Bytes())
	if err != nil {
		return fmt.Errorf("glue does not format: %v\n%s", err, b.String())
	}
	dir := filepath.Join(r.Dir, "harnessmain")
	if err := os.MkdirAll(dir, 0o755); err != nil {
		return err
	}
	return os.WriteFile(filepath.Join(dir, "main.go"), src, 0o644)
}

func writeStubMethod(b *bytes.Buffer, sp *svcPkg, m stubMethod, auth bool) {
	fmt.Fprintf(b, "func (s *stub%s) %s(", sp.Alias, m.Name)
	for i, p := range m.Params {
		if i > 0 {
			b.WriteString(", ")
		}
		fmt.Fprintf(b, "a%d %s", i, p)
	}
	b.WriteString(") (")
	for i, r := range m.Results {
		if i > 0 {
			b.WriteString(", ")
		}
		fmt.Fprintf(b, "r%d %s", i, r)
	}
	b.WriteString(") {\n")
	// arguments after the context
	b.WriteString("\targs := []any{")
	for i := range m.Params {
		if i == 0 {
			continue
		}
		if i > 1 {
			b.WriteString(", ")
		}
		fmt.Fprintf(b, "a%d", i)
	}
	b.WriteString("}\n\trts := []reflect.Type{")
	for i, r := range m.Results {
		if i > 0 {
			b.WriteString(", ")
		}
		fmt.Fprintf(b, "reflect.TypeOf((*%s)(nil)).Elem()", r)
	}
	b.WriteString("}\n")
	if auth {
		fmt.Fprintf(b, "\tout := s.h.Auth(%q, %q, a0, args, rts)\n", sp.ServiceName, m.Name)
	} else {
		fmt.Fprintf(b, "\tout := s.h.Invoke(%q, %q, a0, args, rts)\n", sp.ServiceName, m.Name)
	}
	for i, r := range m.Results {
		fmt.Fprintf(b, "\tif v, ok := out[%d].(%s); ok {\n\t\tr%d = v\n\t}\n", i, r, i)
	}
	b.WriteString("\treturn\n}\n\n")
}

// BuildHarness writes the glue and builds the harness binary of a run.
func (s *Session) BuildHarness(r *Run, race bool) (string, string, error) {
	if err := s.WriteGlue(r); err != nil {
		return "", "", err
	}
	bin := filepath.Join(r.Dir, "harness.bin")
	args := []string{"build", "-o", bin}
	if race {
		args = append(args, "-race")
	}
	args = append(args, "./harnessmain")
	c := exec.Command("go", args...)
	c.Dir = r.Dir
	c.Env = GoEnv()
	out, err := c.CombinedOutput()
	if err != nil {
		return "", string(out), err
	}
	return bin, string(out), nil
}
