// Package dsltree represents a goa design as the literal nesting of DSL
// function calls. A tree can be executed against the real
// goa.design/goa/v3/dsl functions (Run) and printed as ordinary Go DSL source
// (Print), so the same program is used for the fast in-process path, for the
// real goa CLI and in bug reports.
package dsltree

import (
	"fmt"
	"reflect"
	"sort"
	"strconv"
	"strings"
)

// Node is one DSL call: Fn(Args..., func() { Body... }).
type Node struct {
	Fn      string  `json:"fn"`
	Args    []Arg   `json:"args,omitempty"`
	Body    []*Node `json:"body,omitempty"`
	HasBody bool    `json:"has_body,omitempty"` // a func() argument is passed last even when Body is empty
	// Var names the package-level variable the result is assigned to
	// (user types), so that later calls can refer to it with a "ref" argument.
	Var string `json:"var,omitempty"`
}

// Arg is one argument of a call.
type Arg struct {
	// Kind: "str", "int", "float", "bool", "nil", "const" (exported dsl
	// constant/variable by name: String, StatusOK, FormatDate…), "ref" (a
	// value produced by an earlier call and stored under Var), "call" (a
	// nested call whose result is the argument: ArrayOf(String)), "list"
	// ([]any literal), "strmap" (map[string]any literal, JSON-like), "fn"
	// (an extra func() argument that is not the trailing body).
	Kind string   `json:"k"`
	S    string   `json:"s,omitempty"`
	I    int64    `json:"i,omitempty"`
	U    uint64   `json:"u,omitempty"` // Kind "uint"
	F    float64  `json:"f,omitempty"`
	B    bool     `json:"b,omitempty"`
	Call *Node    `json:"call,omitempty"`
	List []Arg    `json:"list,omitempty"`
	Keys []string `json:"keys,omitempty"` // strmap keys (values in List)
	Body []*Node  `json:"body,omitempty"` // fn
	// Typ forces a Go type for int/float literals: "int32", "uint64", "float32" … ("" = int / float64)
	Typ string `json:"t,omitempty"`
}

// goTypes are the element types of typed slice / map literals (Arg.Typ "[]T", "map[string]T").
var goTypes = map[string]reflect.Type{
	"string": reflect.TypeOf(""), "bool": reflect.TypeOf(true),
	"int": reflect.TypeOf(int(0)), "int32": reflect.TypeOf(int32(0)), "int64": reflect.TypeOf(int64(0)),
	"uint": reflect.TypeOf(uint(0)), "uint32": reflect.TypeOf(uint32(0)), "uint64": reflect.TypeOf(uint64(0)),
	"float32": reflect.TypeOf(float32(0)), "float64": reflect.TypeOf(float64(0)),
}

// Convenience constructors.
func S(s string) Arg                 { return Arg{Kind: "str", S: s} }
func U(u uint64, typ string) Arg     { return Arg{Kind: "uint", U: u, Typ: typ} }
func I(i int64) Arg                  { return Arg{Kind: "int", I: i} }
func F(f float64) Arg                { return Arg{Kind: "float", F: f} }
func B(b bool) Arg                   { return Arg{Kind: "bool", B: b} }
func Nil() Arg                       { return Arg{Kind: "nil"} }
func C(name string) Arg              { return Arg{Kind: "const", S: name} }
func Ref(name string) Arg            { return Arg{Kind: "ref", S: name} }
func Call(n *Node) Arg               { return Arg{Kind: "call", Call: n} }
func List(a ...Arg) Arg              { return Arg{Kind: "list", List: a} }
func Fn(body ...*Node) Arg           { return Arg{Kind: "fn", Body: body} }
func N(fn string, args ...Arg) *Node { return &Node{Fn: fn, Args: args} }

// With sets the body of the call (a trailing func() argument).
func (n *Node) With(body ...*Node) *Node {
	n.HasBody = true
	n.Body = append(n.Body, body...)
	return n
}

// As assigns the result to a variable.
func (n *Node) As(v string) *Node { n.Var = v; return n }

// Program is a whole design: top-level calls executed in order.
type Program struct {
	Nodes []*Node `json:"nodes"`
}

// ---------------------------------------------------------------- interpreter

// Env holds values produced by calls with Var set.
type Env struct {
	Vars map[string]reflect.Value
	// Calls counts executed DSL calls.
	Calls int
}

// NewEnv returns an empty environment.
func NewEnv() *Env { return &Env{Vars: map[string]reflect.Value{}} }

// Run executes the program against the real DSL functions. It does not call
// eval.RunDSL: the caller does. Panics raised by DSL functions propagate.
func (p *Program) Run(env *Env) error {
	for _, n := range p.Nodes {
		if _, err := env.exec(n); err != nil {
			return err
		}
	}
	return nil
}

func (env *Env) exec(n *Node) (reflect.Value, error) {
	f, ok := Funcs[n.Fn]
	if !ok {
		return reflect.Value{}, fmt.Errorf("dsltree: unknown DSL function %q", n.Fn)
	}
	env.Calls++
	fv := reflect.ValueOf(f)
	ft := fv.Type()
	nargs := len(n.Args)
	total := nargs
	if n.HasBody {
		total++
	}
	in := make([]reflect.Value, 0, total)
	paramType := func(i int) (reflect.Type, bool) {
		if ft.IsVariadic() && i >= ft.NumIn()-1 {
			return ft.In(ft.NumIn() - 1).Elem(), true
		}
		if i < ft.NumIn() {
			return ft.In(i), true
		}
		return nil, false
	}
	for i, a := range n.Args {
		pt, ok := paramType(i)
		if !ok {
			return reflect.Value{}, fmt.Errorf("dsltree: too many arguments for %s", n.Fn)
		}
		v, err := env.argValue(a, pt)
		if err != nil {
			return reflect.Value{}, fmt.Errorf("%s arg %d: %w", n.Fn, i, err)
		}
		in = append(in, v)
	}
	if n.HasBody {
		pt, ok := paramType(nargs)
		if !ok {
			return reflect.Value{}, fmt.Errorf("dsltree: no parameter for the body of %s", n.Fn)
		}
		fnv := reflect.ValueOf(env.closure(n.Body))
		if !fnv.Type().AssignableTo(pt) {
			return reflect.Value{}, fmt.Errorf("dsltree: %s does not take a func() at position %d", n.Fn, nargs)
		}
		in = append(in, fnv)
	}
	if !ft.IsVariadic() && len(in) != ft.NumIn() {
		return reflect.Value{}, fmt.Errorf("dsltree: %s wants %d arguments, got %d", n.Fn, ft.NumIn(), len(in))
	}
	if ft.IsVariadic() && len(in) < ft.NumIn()-1 {
		return reflect.Value{}, fmt.Errorf("dsltree: %s wants at least %d arguments, got %d", n.Fn, ft.NumIn()-1, len(in))
	}
	var out []reflect.Value
	if ft.IsVariadic() {
		// build the variadic slice by hand: with no variadic argument Go passes
		// a nil slice, whereas reflect.Value.Call would pass an empty non-nil one
		// (the DSL tells the two apart: `if adsl == nil`)
		nfix := ft.NumIn() - 1
		st := ft.In(nfix)
		vs := reflect.Zero(st)
		if len(in) > nfix {
			vs = reflect.MakeSlice(st, 0, len(in)-nfix)
			for _, v := range in[nfix:] {
				vs = reflect.Append(vs, v)
			}
		}
		out = fv.CallSlice(append(append([]reflect.Value{}, in[:nfix]...), vs))
	} else {
		out = fv.Call(in)
	}
	var res reflect.Value
	if len(out) > 0 {
		res = out[0]
	}
	if n.Var != "" && res.IsValid() {
		env.Vars[n.Var] = res
	}
	return res, nil
}

// InterpError is the panic value raised inside a DSL closure when the
// program cannot be expressed as Go source (arity, static type, undefined
// variable): it is a defect of the program, not of the DSL.
type InterpError struct{ Err error }

func (e *InterpError) Error() string { return e.Err.Error() }

func (env *Env) closure(body []*Node) func() {
	return func() {
		for _, c := range body {
			if _, err := env.exec(c); err != nil {
				panic(&InterpError{Err: err})
			}
		}
	}
}

var anyType = reflect.TypeOf((*any)(nil)).Elem()

func (env *Env) argValue(a Arg, pt reflect.Type) (reflect.Value, error) {
	var v reflect.Value
	switch a.Kind {
	case "str":
		v = reflect.ValueOf(a.S)
	case "int":
		v = typedInt(a.I, a.Typ)
	case "uint":
		switch a.Typ {
		case "uint32":
			v = reflect.ValueOf(uint32(a.U))
		case "uint64":
			v = reflect.ValueOf(a.U)
		default:
			v = reflect.ValueOf(uint(a.U))
		}
	case "float":
		if a.Typ == "float32" {
			v = reflect.ValueOf(float32(a.F))
		} else {
			v = reflect.ValueOf(a.F)
		}
	case "bool":
		v = reflect.ValueOf(a.B)
	case "nil":
		return reflect.Zero(pt), nil
	case "const":
		c, ok := Consts[a.S]
		if !ok {
			return v, fmt.Errorf("unknown constant %q", a.S)
		}
		v = reflect.ValueOf(c)
	case "ref":
		r, ok := env.Vars[a.S]
		if !ok {
			return v, fmt.Errorf("undefined variable %q", a.S)
		}
		v = r
	case "call":
		r, err := env.exec(a.Call)
		if err != nil {
			return v, err
		}
		if !r.IsValid() {
			return v, fmt.Errorf("%s returns no value", a.Call.Fn)
		}
		v = r
	case "list":
		if et, ok := goTypes[strings.TrimPrefix(a.Typ, "[]")]; ok && strings.HasPrefix(a.Typ, "[]") {
			// a typed slice literal: []string{"a", "b"}
			sl := reflect.MakeSlice(reflect.SliceOf(et), 0, len(a.List))
			for _, e := range a.List {
				ev, err := env.argValue(e, et)
				if err != nil {
					return v, err
				}
				sl = reflect.Append(sl, ev.Convert(et))
			}
			v = sl
			break
		}
		l := make([]any, len(a.List))
		for i, e := range a.List {
			ev, err := env.argValue(e, anyType)
			if err != nil {
				return v, err
			}
			if ev.IsValid() && !(ev.Kind() == reflect.Interface && ev.IsNil()) {
				l[i] = ev.Interface()
			}
		}
		v = reflect.ValueOf(l)
	case "strmap":
		if et, ok := goTypes[strings.TrimPrefix(a.Typ, "map[string]")]; ok && strings.HasPrefix(a.Typ, "map[string]") {
			// a typed map literal: map[string]int64{"w": 1}
			mv := reflect.MakeMapWithSize(reflect.MapOf(reflect.TypeOf(""), et), len(a.Keys))
			for i, k := range a.Keys {
				ev, err := env.argValue(a.List[i], et)
				if err != nil {
					return v, err
				}
				mv.SetMapIndex(reflect.ValueOf(k), ev.Convert(et))
			}
			v = mv
			break
		}
		m := make(map[string]any, len(a.Keys))
		for i, k := range a.Keys {
			ev, err := env.argValue(a.List[i], anyType)
			if err != nil {
				return v, err
			}
			if ev.IsValid() && !(ev.Kind() == reflect.Interface && ev.IsNil()) {
				m[k] = ev.Interface()
			}
		}
		v = reflect.ValueOf(m)
	case "fn":
		v = reflect.ValueOf(env.closure(a.Body))
	default:
		return v, fmt.Errorf("unknown arg kind %q", a.Kind)
	}
	if v.Type().AssignableTo(pt) {
		if pt.Kind() == reflect.Interface && v.Type() != pt {
			nv := reflect.New(pt).Elem()
			nv.Set(v)
			return nv, nil
		}
		return v, nil
	}
	if v.Type().ConvertibleTo(pt) && (isNumeric(v.Kind()) && isNumeric(pt.Kind()) || v.Kind() == pt.Kind()) {
		return v.Convert(pt), nil
	}
	return v, fmt.Errorf("cannot use %s as %s", v.Type(), pt)
}

func isNumeric(k reflect.Kind) bool {
	switch k {
	case reflect.Int, reflect.Int8, reflect.Int16, reflect.Int32, reflect.Int64,
		reflect.Uint, reflect.Uint8, reflect.Uint16, reflect.Uint32, reflect.Uint64,
		reflect.Float32, reflect.Float64:
		return true
	}
	return false
}

func typedInt(i int64, typ string) reflect.Value {
	switch typ {
	case "int32":
		return reflect.ValueOf(int32(i))
	case "int64":
		return reflect.ValueOf(i)
	case "uint":
		return reflect.ValueOf(uint(i))
	case "uint32":
		return reflect.ValueOf(uint32(i))
	case "uint64":
		return reflect.ValueOf(uint64(i))
	case "float32":
		return reflect.ValueOf(float32(i))
	case "float64":
		return reflect.ValueOf(float64(i))
	}
	return reflect.ValueOf(int(i))
}

// ---------------------------------------------------------------- printer

// Print renders the program as a Go design package.
func (p *Program) Print(pkg string) string {
	var b strings.Builder
	fmt.Fprintf(&b, "package %s\n\nimport . \"goa.design/goa/v3/dsl\"\n\n", pkg)
	for _, n := range p.Nodes {
		if n.Var != "" {
			fmt.Fprintf(&b, "var %s = ", n.Var)
		} else {
			b.WriteString("var _ = ")
		}
		if !returnsValue(n.Fn) {
			// statements that return nothing must be wrapped
			b.Reset()
			return p.printWithInit(pkg)
		}
		printNode(&b, n, 0)
		b.WriteString("\n\n")
	}
	return b.String()
}

func (p *Program) printWithInit(pkg string) string {
	var b strings.Builder
	fmt.Fprintf(&b, "package %s\n\nimport . \"goa.design/goa/v3/dsl\"\n\n", pkg)
	var vars []string
	for _, n := range p.Nodes {
		if n.Var != "" {
			vars = append(vars, n.Var)
		}
	}
	sort.Strings(vars)
	for _, v := range vars {
		fmt.Fprintf(&b, "var %s any\n", v)
	}
	b.WriteString("\nfunc init() {\n")
	for _, n := range p.Nodes {
		b.WriteString("\t")
		if n.Var != "" {
			fmt.Fprintf(&b, "%s = ", n.Var)
		}
		printNode(&b, n, 1)
		b.WriteString("\n")
	}
	b.WriteString("}\n")
	return b.String()
}

func returnsValue(fn string) bool {
	f, ok := Funcs[fn]
	if !ok {
		return false
	}
	return reflect.TypeOf(f).NumOut() > 0
}

func printNode(b *strings.Builder, n *Node, depth int) {
	b.WriteString(n.Fn)
	b.WriteString("(")
	for i, a := range n.Args {
		if i > 0 {
			b.WriteString(", ")
		}
		printArg(b, a, depth)
	}
	if n.HasBody {
		if len(n.Args) > 0 {
			b.WriteString(", ")
		}
		printBody(b, n.Body, depth)
	}
	b.WriteString(")")
}

func printBody(b *strings.Builder, body []*Node, depth int) {
	if len(body) == 0 {
		b.WriteString("func() {}")
		return
	}
	b.WriteString("func() {\n")
	for _, c := range body {
		b.WriteString(strings.Repeat("\t", depth+1))
		printNode(b, c, depth+1)
		b.WriteString("\n")
	}
	b.WriteString(strings.Repeat("\t", depth))
	b.WriteString("}")
}

func printArg(b *strings.Builder, a Arg, depth int) {
	switch a.Kind {
	case "str":
		b.WriteString(strconv.Quote(a.S))
	case "int":
		if a.Typ != "" {
			fmt.Fprintf(b, "%s(%d)", a.Typ, a.I)
		} else {
			fmt.Fprintf(b, "%d", a.I)
		}
	case "uint":
		typ := a.Typ
		if typ == "" {
			typ = "uint"
		}
		fmt.Fprintf(b, "%s(%d)", typ, a.U)
	case "float":
		s := strconv.FormatFloat(a.F, 'g', -1, 64)
		if !strings.ContainsAny(s, ".eE") {
			s += ".0"
		}
		if a.Typ != "" {
			fmt.Fprintf(b, "%s(%s)", a.Typ, s)
		} else {
			b.WriteString(s)
		}
	case "bool":
		fmt.Fprintf(b, "%v", a.B)
	case "nil":
		b.WriteString("nil")
	case "const", "ref":
		b.WriteString(a.S)
	case "call":
		printNode(b, a.Call, depth)
	case "list":
		if a.Typ != "" {
			b.WriteString(a.Typ + "{")
		} else {
			b.WriteString("[]any{")
		}
		for i, e := range a.List {
			if i > 0 {
				b.WriteString(", ")
			}
			printArg(b, e, depth)
		}
		b.WriteString("}")
	case "strmap":
		if a.Typ != "" {
			b.WriteString(a.Typ + "{")
		} else {
			b.WriteString("map[string]any{")
		}
		for i, k := range a.Keys {
			if i > 0 {
				b.WriteString(", ")
			}
			b.WriteString(strconv.Quote(k))
			b.WriteString(": ")
			printArg(b, a.List[i], depth)
		}
		b.WriteString("}")
	case "fn":
		printBody(b, a.Body, depth)
	}
}
