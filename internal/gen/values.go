package gen

import (
	"math"
	"strings"

	"pgregory.net/rapid"

	"verif/internal/kf"
	m "verif/internal/model"
	"verif/internal/value"
)

// Loc says where a value travels; it restricts the alphabet to what that
// transport location can carry at all (an HTTP fact, not a goa choice).
type Loc struct {
	// Where: "body", "query", "header", "cookie", "path"
	Where string
	// InArray: element of an array carried in a header (no comma)
	InArray bool
	// NoEmpty: never generate the empty string (open finding: "" ≡ absent in query/header/cookie)
	NoEmpty bool
	// NoSlash: never generate '/' (open finding: client does not escape '/' in path values)
	NoSlash bool
	// NoPercent: never generate '%' (double unescape of path values while that finding is open)
	NoPercent bool
	// NonEmptyArray: arrays have at least one element (a zero-length repeated
	// parameter or header cannot be told from an absent one)
	NonEmptyArray bool
	// NonEmptyMap: maps have at least one entry (protocol buffers cannot tell an empty map from an absent one)
	NonEmptyMap bool
	// SingleElemArray: arrays have exactly one element (open finding on response header arrays)
	SingleElemArray bool
	// MustSetDefaults: attributes with a default always get an explicit value
	// (the generated client cannot express "unset" for them)
	MustSetDefaults bool
	// PrintableASCII: the location only carries printable ASCII (gRPC
	// metadata): enumerated values outside it are never chosen
	PrintableASCII bool
}

// Body is the location of JSON body attributes.
var Body = Loc{Where: "body"}

var bodyTokens = []string{"a", "Z", "é", "日本", " ", "%41", "%", "+", "/", "?", "&", "=", "#", "\"", "\\", "\n", "😀", "x", "0", "-", "_", ".", ",", ";", ":", "<", ">", "'", "{", "}", "\t"}
var headerTokens = []string{"a", "Z", "0", " ", "%41", "%", "+", "/", "?", "&", "=", "#", "\"", "\\", "x", "-", "_", ".", ",", ";", ":", "<", ">", "'", "é"}
var cookieTokens = []string{"a", "Z", "0", "%41", "%", "+", "/", "?", "&", "=", "#", "x", "-", "_", ".", ":", "<", ">", "'", "!", "~", "*", "(", ")"}
var pathTokens = []string{"a", "Z", "0", " ", "é", "日", "%", "%41", "+", "?", "&", "=", "#", "x", "-", "_", ".", ",", ";", ":", "@", "$", "'", "\"", "/"}

func (l Loc) tokens() []string {
	var src []string
	switch l.Where {
	case "header":
		src = headerTokens
	case "cookie":
		src = cookieTokens
	case "path":
		src = pathTokens
	default:
		src = bodyTokens
	}
	var out []string
	for _, t := range src {
		if l.InArray && l.Where == "header" && strings.Contains(t, ",") {
			continue
		}
		if l.NoSlash && strings.Contains(t, "/") {
			continue
		}
		if l.NoPercent && strings.Contains(t, "%") {
			continue
		}
		out = append(out, t)
	}
	return out
}

// trimmable reports whether s cannot be carried verbatim by the location.
func (l Loc) carries(s string) bool {
	switch l.Where {
	case "header":
		if s != strings.TrimSpace(s) {
			return false
		}
	case "path":
		if s == "" {
			return false
		}
		if s == "." || s == ".." {
			return false // dot segments are removed by URL normalisation
		}
	}
	if l.NoEmpty && s == "" {
		return false
	}
	return true
}

func runeLen(s string) int { return len([]rune(s)) }

// stringOfLen builds a string whose length in runes lies in [lo,hi] from the
// location's token pool.
func stringOfLen(t *rapid.T, l Loc, lo, hi int) string {
	toks := l.tokens()
	for try := 0; try < 20; try++ {
		n := rapid.IntRange(lo, hi).Draw(t, "strlen")
		var b strings.Builder
		cur := 0
		for cur < n {
			tok := rapid.SampledFrom(toks).Draw(t, "tok")
			tl := runeLen(tok)
			if cur+tl > n {
				tok = "x"
				tl = 1
			}
			b.WriteString(tok)
			cur += tl
		}
		s := b.String()
		if l.Where == "header" {
			// no leading/trailing blank
			if strings.HasPrefix(s, " ") {
				s = "x" + s[1:]
			}
			if strings.HasSuffix(s, " ") {
				s = s[:len(s)-1] + "x"
			}
		}
		if l.carries(s) {
			return s
		}
		if lo == 0 && hi == 0 {
			break
		}
	}
	n := lo
	if n == 0 && (l.NoEmpty || l.Where == "path") {
		n = 1
	}
	if n > hi {
		n = hi
	}
	return strings.Repeat("x", n)
}

// ValidValue generates a value that satisfies every constraint of the attribute.
func ValidValue(d *m.Design, a *m.Attr, depth int) *rapid.Generator[value.V] {
	return ValidValueAt(d, a, Body, depth)
}

// ValidValueAt is ValidValue for a given transport location.
func ValidValueAt(d *m.Design, a *m.Attr, loc Loc, depth int) *rapid.Generator[value.V] {
	return rapid.Custom(func(t *rapid.T) value.V {
		return genValue(t, d, a, loc, depth, nil)
	})
}

// merged validation along a chain of user-type references
func mergedValidation(chain []*m.Attr) *m.Validation {
	var out m.Validation
	for _, a := range chain {
		v := a.V
		if v == nil {
			continue
		}
		if len(v.Enum) > 0 && len(out.Enum) == 0 {
			out.Enum = v.Enum
		}
		if v.Format != "" && out.Format == "" {
			out.Format = v.Format
		}
		if v.Pattern != "" && out.Pattern == "" {
			out.Pattern = v.Pattern
		}
		pick := func(dst **float64, src *float64, max bool) {
			if src == nil {
				return
			}
			if *dst == nil || (max && *src < **dst) || (!max && *src > **dst) {
				c := *src
				*dst = &c
			}
		}
		pick(&out.Min, v.Min, false)
		pick(&out.ExclMin, v.ExclMin, false)
		pick(&out.Max, v.Max, true)
		pick(&out.ExclMax, v.ExclMax, true)
		if v.MinLen != nil && (out.MinLen == nil || *v.MinLen > *out.MinLen) {
			c := *v.MinLen
			out.MinLen = &c
		}
		if v.MaxLen != nil && (out.MaxLen == nil || *v.MaxLen < *out.MaxLen) {
			c := *v.MaxLen
			out.MaxLen = &c
		}
	}
	return &out
}

// MergedValidation returns the validations that apply to an attribute after
// following user-type references (an alias' validations add to the use site's).
func MergedValidation(d *m.Design, a *m.Attr) *m.Validation {
	_, chain := d.Resolve(a)
	return mergedValidation(chain)
}

func genValue(t *rapid.T, d *m.Design, a *m.Attr, loc Loc, depth int, stack []string) value.V {
	res, chain := d.Resolve(a)
	v := mergedValidation(chain)
	k := res.Type.Kind
	if len(v.Enum) > 0 {
		cands := v.Enum
		if loc.PrintableASCII {
			var ok []value.V
			for _, e := range v.Enum {
				if e.K != "string" || printable(e.S) {
					ok = append(ok, e)
				}
			}
			if len(ok) > 0 {
				cands = ok
			}
		}
		return rapid.SampledFrom(cands).Draw(t, "enum")
	}
	switch {
	case k == m.Boolean:
		return value.Bool(rapid.Bool().Draw(t, "bool"))
	case k.IsNumeric():
		return genNumber(t, k, v)
	case k == m.String:
		return value.Str(genString(t, v, loc))
	case k == m.Bytes:
		lo, hi := 0, 6
		if v.MinLen != nil {
			lo = *v.MinLen
			hi = lo + 6
		}
		if v.MaxLen != nil {
			hi = *v.MaxLen
		}
		if loc.Where != "body" {
			return value.Bytes([]byte(stringOfLenASCII(t, loc, lo, hi)))
		}
		n := rapid.IntRange(lo, hi).Draw(t, "byteslen")
		b := make([]byte, n)
		for i := range b {
			b[i] = rapid.SampledFrom([]byte{0, 1, 'a', 0x7f, 0x80, 0xff, '"', '\n', '%'}).Draw(t, "byte")
		}
		return value.Bytes(b)
	case k == m.Any:
		switch rapid.IntRange(0, 4).Draw(t, "anykind") {
		case 0:
			return value.Bool(rapid.Bool().Draw(t, "anybool"))
		case 1:
			return value.Float(float64(rapid.IntRange(-1000, 1000).Draw(t, "anynum")) / 4)
		case 2:
			return value.Array(value.Str("x"), value.Str("y"))
		default:
			return value.Str(stringOfLen(t, loc, 0, 5))
		}
	case k == m.Array:
		lo, hi := 0, 3
		if v.MinLen != nil {
			lo = *v.MinLen
			hi = lo + 3
		}
		if v.MaxLen != nil {
			hi = *v.MaxLen
			if lo > hi {
				lo = hi
			}
		}
		if depth <= 0 && lo == 0 {
			hi = 0
		}
		if loc.NonEmptyArray && lo == 0 {
			lo = 1
			if hi < 1 {
				hi = 1
			}
		}
		n := rapid.IntRange(lo, hi).Draw(t, "arraylen")
		if loc.SingleElemArray && lo <= 1 && hi >= 1 {
			n = 1
		}
		el := loc
		el.InArray = true
		out := value.V{K: "array", A: make([]value.V, 0, n)}
		for i := 0; i < n; i++ {
			out.A = append(out.A, genValue(t, d, res.Type.Elem, el, depth-1, stack))
		}
		return out
	case k == m.Map:
		lo, hi := 0, 3
		if v.MinLen != nil {
			lo = *v.MinLen
			hi = lo + 3
		}
		if v.MaxLen != nil {
			hi = *v.MaxLen
			if lo > hi {
				lo = hi
			}
		}
		if loc.NonEmptyMap && lo == 0 {
			lo = 1
			if hi < 1 {
				hi = 1
			}
		}
		n := rapid.IntRange(lo, hi).Draw(t, "maplen")
		out := value.V{K: "map"}
		seen := map[string]bool{}
		for tries := 0; len(out.A)/2 < n && tries < 50; tries++ {
			kl := loc
			kl.NoEmpty = loc.Where != "body" || loc.NoEmpty
			kv := genValue(t, d, res.Type.Key, kl, 0, stack)
			c := kv.Canon()
			if seen[c] {
				continue
			}
			seen[c] = true
			out.A = append(out.A, kv, genValue(t, d, res.Type.Val, loc, depth-1, stack))
		}
		return out
	case k == m.Object:
		out := value.V{K: "object"}
		for _, f := range res.Type.Fields {
			present := f.Required
			if !present {
				present = depth > 0 && rapid.IntRange(0, 9).Draw(t, "present:"+f.Name) < 6
				if f.Attr.Default != nil && loc.MustSetDefaults {
					present = true
				}
				if loc.MustSetDefaults && MinLenCollection(d, f.Attr) && kf.Open("C04-absent-optional-collection-minlength") {
					present = true
				}
			}
			if !present {
				continue
			}
			fl := loc
			out.O = append(out.O, value.Field{N: f.Name, V: genValue(t, d, f.Attr, fl, depth-1, stack)})
		}
		return out
	case k == m.Union:
		alt := res.Type.Fields[rapid.IntRange(0, len(res.Type.Fields)-1).Draw(t, "alt")]
		return value.V{K: "union", S: alt.Name, A: []value.V{genValue(t, d, alt.Attr, loc, depth-1, stack)}}
	}
	return value.Nil()
}

func stringOfLenASCII(t *rapid.T, loc Loc, lo, hi int) string {
	l := loc
	s := stringOfLen(t, l, lo, hi)
	var b strings.Builder
	for _, r := range s {
		if r < 0x80 {
			b.WriteRune(r)
		} else {
			b.WriteByte('y')
		}
	}
	return b.String()
}

func genString(t *rapid.T, v *m.Validation, loc Loc) string {
	if v.Format != "" {
		return rapid.SampledFrom(Formats[v.Format].Valid).Draw(t, "fmtval")
	}
	if v.Pattern != "" {
		for _, p := range Patterns {
			if p.Pattern == v.Pattern {
				var ok []string
				for _, s := range p.Match {
					if loc.carries(s) && !(loc.NoSlash && strings.Contains(s, "/")) && !(loc.NoPercent && strings.Contains(s, "%")) && !(loc.Where == "cookie" && strings.ContainsAny(s, " ;,\"\\")) && !(loc.Where != "body" && loc.Where != "query" && !isASCII(s)) {
						ok = append(ok, s)
					}
				}
				if len(ok) == 0 {
					ok = []string{p.Match[0]}
				}
				return rapid.SampledFrom(ok).Draw(t, "patval")
			}
		}
	}
	lo, hi := 0, 8
	if v.MinLen != nil {
		lo = *v.MinLen
		hi = lo + 8
	}
	if v.MaxLen != nil {
		hi = *v.MaxLen
		if lo > hi {
			lo = hi
		}
	}
	if lo == 0 && hi >= 1 && (loc.NoEmpty || loc.Where == "path") {
		lo = 1
	}
	// boundary classes: exactly lo, exactly hi
	switch rapid.IntRange(0, 5).Draw(t, "lenclass") {
	case 0:
		return stringOfLen(t, loc, lo, lo)
	case 1:
		if v.MaxLen != nil {
			return stringOfLen(t, loc, hi, hi)
		}
	}
	return stringOfLen(t, loc, lo, hi)
}

func printable(s string) bool {
	for _, r := range s {
		if r < 0x20 || r > 0x7e {
			return false
		}
	}
	return true
}

func isASCII(s string) bool {
	for _, r := range s {
		if r >= 0x80 {
			return false
		}
	}
	return true
}

// numeric domain of a kind as float64 bounds plus exact integer extremes
func kindRange(k m.Kind) (lo, hi float64) {
	switch k {
	case m.Int32:
		return math.MinInt32, math.MaxInt32
	case m.Int, m.Int64:
		return math.MinInt64, math.MaxInt64
	case m.UInt32:
		return 0, math.MaxUint32
	case m.UInt, m.UInt64:
		return 0, math.MaxUint64
	case m.Float32:
		return -math.MaxFloat32, math.MaxFloat32
	}
	return -math.MaxFloat64, math.MaxFloat64
}

func genNumber(t *rapid.T, k m.Kind, v *m.Validation) value.V {
	bounded := v.Min != nil || v.Max != nil || v.ExclMin != nil || v.ExclMax != nil
	if k.IsFloat() {
		var f float64
		if !bounded {
			f = rapid.SampledFrom([]float64{0, 1, -1, 0.5, -2.25, 3.14159, 1e10, -1e-7, 123456.789, 1e30, -1e30}).Draw(t, "float")
			if rapid.Bool().Draw(t, "randfloat") {
				f = float64(rapid.IntRange(-100000, 100000).Draw(t, "fnum")) / 8
			}
		} else {
			lo, hi := -1e6, 1e6
			if v.Min != nil {
				lo = *v.Min
			}
			if v.ExclMin != nil && *v.ExclMin >= lo {
				lo = *v.ExclMin + 0.125
			}
			if v.Max != nil {
				hi = *v.Max
			}
			if v.ExclMax != nil && *v.ExclMax <= hi {
				hi = *v.ExclMax - 0.125
			}
			switch rapid.IntRange(0, 4).Draw(t, "fclass") {
			case 0:
				f = lo
			case 1:
				f = hi
			default:
				steps := int((hi - lo) * 8)
				if steps > 1<<20 {
					steps = 1 << 20
				}
				if steps < 0 {
					steps = 0
				}
				f = lo + float64(rapid.IntRange(0, steps).Draw(t, "fstep"))/8
			}
		}
		if k == m.Float32 {
			f = float64(float32(f))
		}
		return value.Float(f)
	}
	// integers: work in int64/uint64 exactly
	if k.IsUnsigned() {
		var lo, hi uint64 = 0, math.MaxUint64
		if k == m.UInt32 {
			hi = math.MaxUint32
		}
		if v.Min != nil && *v.Min > 0 {
			lo = uint64(math.Ceil(*v.Min))
		}
		if v.ExclMin != nil && *v.ExclMin >= 0 && uint64(math.Floor(*v.ExclMin))+1 > lo {
			lo = uint64(math.Floor(*v.ExclMin)) + 1
		}
		if v.Max != nil {
			hi = uint64(math.Floor(*v.Max))
		}
		if v.ExclMax != nil && uint64(math.Ceil(*v.ExclMax))-1 < hi {
			hi = uint64(math.Ceil(*v.ExclMax)) - 1
		}
		switch rapid.IntRange(0, 5).Draw(t, "uclass") {
		case 0:
			return value.Uint(lo)
		case 1:
			return value.Uint(hi)
		case 2:
			if lo < hi {
				return value.Uint(lo + 1)
			}
		case 3:
			if lo < hi {
				return value.Uint(hi - 1)
			}
		}
		span := hi - lo
		if span > 1000 {
			span = 1000
		}
		return value.Uint(lo + uint64(rapid.IntRange(0, int(span)).Draw(t, "uoff")))
	}
	var lo, hi int64 = math.MinInt64, math.MaxInt64
	if k == m.Int32 {
		lo, hi = math.MinInt32, math.MaxInt32
	}
	if v.Min != nil {
		lo = int64(math.Ceil(*v.Min))
	}
	if v.ExclMin != nil && int64(math.Floor(*v.ExclMin))+1 > lo {
		lo = int64(math.Floor(*v.ExclMin)) + 1
	}
	if v.Max != nil {
		hi = int64(math.Floor(*v.Max))
	}
	if v.ExclMax != nil && int64(math.Ceil(*v.ExclMax))-1 < hi {
		hi = int64(math.Ceil(*v.ExclMax)) - 1
	}
	switch rapid.IntRange(0, 6).Draw(t, "iclass") {
	case 0:
		return value.Int(lo)
	case 1:
		return value.Int(hi)
	case 2:
		if lo < hi {
			return value.Int(lo + 1)
		}
	case 3:
		if lo < hi {
			return value.Int(hi - 1)
		}
	case 4:
		if lo <= 0 && hi >= 0 {
			return value.Int(0)
		}
	}
	// somewhere inside, near zero when possible
	c := int64(0)
	if lo > 0 {
		c = lo
	} else if hi < 0 {
		c = hi
	}
	off := int64(rapid.IntRange(-500, 500).Draw(t, "ioff"))
	x := c + off
	if x < lo {
		x = lo
	}
	if x > hi {
		x = hi
	}
	return value.Int(x)
}
