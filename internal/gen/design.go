// Package gen holds the rapid generators: designs (per-property profiles),
// values for a design's types, and DSL chaos trees.
package gen

import (
	"fmt"
	"sort"
	"strings"

	"pgregory.net/rapid"

	m "verif/internal/model"
	"verif/internal/value"
)

// Profile re-weights the design generator for a property.
type Profile struct {
	Name        string
	MaxServices int
	MaxMethods  int
	MaxFields   int
	// Runtime keeps the design inside the subset the runtime oracles model
	// completely (names distinct under normalisation, no hostile names…).
	Runtime bool
	// feature switches
	Validations  bool
	Defaults     bool
	UserTypes    bool
	Aliases      bool
	Recursive    bool
	ResultTypes  bool // result types with views
	Collections  bool
	Errors       bool
	CustomErrors bool
	Security     bool
	MultiRoute   bool
	BasePaths    bool
	Cookies      bool
	Tags         bool // tagged responses
	RespHeaders  bool
	ExplicitBody bool
	Maps         bool
	Any          bool
	Bytes        bool
	Unions       bool
	GRPC         bool
	Streaming    bool
	// StreamPercent: share of HTTP methods that are streaming endpoints when Streaming is set (0 = 75)
	StreamPercent int
	Files        bool
	HostileNames bool
	// HostileFields: attribute names only from the hostile pool (keywords, predeclared
	// identifiers, Goify collisions, names the generated code uses itself)
	HostileFields bool
	// DualTransport: some HTTP services are served over gRPC too
	DualTransport bool
	// AbsoluteRoutes: extra routes of a multi-route endpoint may be absolute ("//path")
	AbsoluteRoutes bool
	// AliasDefaults: primitive alias types may declare a Default on the type
	// itself; attributes of that type inherit it
	AliasDefaults bool
	Meta          bool
	AllVerbs      bool
	PrimPayloads  bool // primitive / array / map payloads and results
	Extend        bool
	NoBodyVerbs   bool // GET/DELETE/HEAD endpoints whose payload is fully mapped to params
	Examples      bool
	ParamHeavy    bool // favour path/query/header/cookie mappings and arrays of primitives
	RespHeavy     bool // favour explicit responses: headers, cookies, tags, result types
	ViewHeavy     bool // most user types are result types with several views; results are result types
	// Avoid lists open known findings (quirk IDs) whose input class the
	// generator must not emit; every avoidance is counted.
	Avoid map[string]bool
}

// Wide is the envelope profile (C01, C09): everything on.
func Wide() Profile {
	return Profile{Name: "wide", MaxServices: 3, MaxMethods: 4, MaxFields: 6,
		Validations: true, Defaults: true, UserTypes: true, Aliases: true, Recursive: true, ResultTypes: true, Collections: true,
		Errors: true, CustomErrors: true, Security: true, MultiRoute: true, BasePaths: true, Cookies: true, Tags: true, RespHeaders: true,
		ExplicitBody: true, Maps: true, Any: true, Bytes: true, Unions: true, GRPC: true, Streaming: true, Files: true, HostileNames: true,
		Meta: true, AllVerbs: true, PrimPayloads: true, Extend: true, NoBodyVerbs: true, Examples: true}
}

// Request is the C02/C04/C14 profile.
func Request() Profile {
	return Profile{Name: "request", MaxServices: 2, MaxMethods: 3, MaxFields: 6, Runtime: true,
		Validations: true, Defaults: true, UserTypes: true, Aliases: true, Recursive: true, MultiRoute: true, BasePaths: true, Cookies: true,
		ExplicitBody: true, Maps: true, Bytes: true, NoBodyVerbs: true, PrimPayloads: true, Errors: true, ParamHeavy: true, Unions: true, AbsoluteRoutes: true, DualTransport: true}
}

// Errors is the C05 profile.
func Errors() Profile {
	return Profile{Name: "errors", MaxServices: 2, MaxMethods: 3, MaxFields: 4, Runtime: true,
		Validations: true, Defaults: true, UserTypes: true, Aliases: true, MultiRoute: true, BasePaths: true,
		Maps: true, PrimPayloads: true, Errors: true, CustomErrors: true, ParamHeavy: true, DualTransport: true, Streaming: true, StreamPercent: 15}
}

// Routes is the C07/C14 document profile: routes, verbs, base paths, params in every location, file servers, security.
func Routes() Profile {
	return Profile{Name: "routes", MaxServices: 3, MaxMethods: 4, MaxFields: 5, Runtime: true,
		Validations: true, Defaults: true, UserTypes: true, Aliases: true, Recursive: true, ResultTypes: true, Collections: true,
		Errors: true, CustomErrors: true, Security: true, MultiRoute: true, BasePaths: true, Cookies: true, Tags: true, RespHeaders: true,
		ExplicitBody: true, Maps: true, Bytes: true, Files: true, AllVerbs: true, PrimPayloads: true, NoBodyVerbs: true, ParamHeavy: true, Meta: true, AbsoluteRoutes: true}
}

// Names is a C01 campaign profile: the routes envelope outside the runtime
// subset (API names with spaces, raw bytes in parameters, names only distinct
// as written) with attribute names drawn from Go keywords, predeclared
// identifiers, acronyms, separators, non-ASCII and identifiers the generated
// code declares itself.
func Names() Profile {
	p := Routes()
	p.Name = "names"
	p.Runtime = false
	p.HostileFields = true
	p.Any = true
	p.Unions = true
	return p
}

// Views is the C08 profile.
func Views() Profile {
	return Profile{Name: "views", MaxServices: 2, MaxMethods: 3, MaxFields: 5, Runtime: true,
		Validations: true, Defaults: true, UserTypes: true, Aliases: true, Recursive: true, ResultTypes: true, Collections: true,
		RespHeaders: true, Maps: true, ViewHeavy: true, RespHeavy: true}
}

// Security is the C06 profile.
func Security() Profile {
	return Profile{Name: "security", MaxServices: 2, MaxMethods: 3, MaxFields: 3, Runtime: true,
		Validations: true, Defaults: true, UserTypes: true, MultiRoute: true, BasePaths: true, Security: true, Errors: true, NoBodyVerbs: true, DualTransport: true, Streaming: true, StreamPercent: 15, ExplicitBody: true}
}

// Response is the C03 profile.
func Response() Profile {
	return Profile{Name: "response", MaxServices: 2, MaxMethods: 3, MaxFields: 6, Runtime: true,
		Validations: true, Defaults: true, UserTypes: true, Aliases: true, Recursive: true, Tags: true, RespHeaders: true, Cookies: true,
		ExplicitBody: true, Maps: true, Bytes: true, PrimPayloads: true, ResultTypes: true, RespHeavy: true, AliasDefaults: true, Unions: true, DualTransport: true}
}

// Streams is the profile of the streaming campaigns (C02/C03): most methods
// are websocket streaming endpoints whose payload travels in path, query and
// headers; streamed messages are primitives, arrays, maps, inline objects,
// user types (aliases, nesting, recursion, validations, defaults) and result
// types with views.
func Streams() Profile {
	return Profile{Name: "streams", MaxServices: 2, MaxMethods: 4, MaxFields: 5, Runtime: true, Streaming: true,
		Validations: true, Defaults: true, UserTypes: true, Aliases: true, Recursive: true, BasePaths: true, MultiRoute: true,
		Maps: true, Bytes: true, PrimPayloads: true, ResultTypes: true, ParamHeavy: true, NoBodyVerbs: true}
}

func (p Profile) streamPercent() int {
	if p.StreamPercent > 0 {
		return p.StreamPercent
	}
	return 75
}

// G carries the state of one design generation.
type G struct {
	t *rapid.T
	p Profile
	d *m.Design
	// name pools already used (normalised)
	used     map[string]bool
	typeSeq  int
	features map[string]bool
	// inlineLevel: nesting depth of inline objects below the current root
	inlineLevel int
	// apiErrInService: the current service re-declares the API-level error
	apiErrInService bool
	// streamingNow: the method being generated is a streaming endpoint
	streamingNow bool
	// inlinePayload: the payload being mapped is an inline object (its fields are its own)
	inlinePayload bool
}

// avoid reports whether the generator must steer away from an open finding;
// the exclusion is recorded in the design's features as "excluded:<id>".
func (g *G) avoid(id string) bool {
	if g.p.Avoid[id] {
		g.features["excluded:"+id] = true
		return true
	}
	return false
}

func norm(s string) string {
	var b strings.Builder
	for _, r := range strings.ToLower(s) {
		if (r >= 'a' && r <= 'z') || (r >= '0' && r <= '9') {
			b.WriteRune(r)
		}
	}
	return b.String()
}

// Norm normalises an identifier the way the harness matches attribute names
// with generated Go field names.
func Norm(s string) string { return norm(s) }

func (g *G) feat(f string) { g.features[f] = true }

var plainNames = []string{"a", "b", "c", "id", "name", "count", "flag", "ratio", "tags", "data", "kind", "note", "level", "size", "owner", "email", "when", "items", "opts", "label", "code", "rank", "zone", "unit", "path_id", "user_name", "total_count", "x1", "y2", "lang", "userIDs", "deviceUUIDs", "apiURLs"}

// hostile names: Go keywords, predeclared identifiers, names that Goify to
// the same identifier, acronyms, names equal to identifiers the generated code
// uses itself, leading digits, dashes.
var hostileNames = []string{"type", "func", "range", "map", "string", "error", "nil", "len", "int", "bool", "any", "package", "import", "var", "default", "switch", "select", "go", "chan", "interface", "struct", "return",
	"foo_bar", "fooBar", "FooBar", "foo-bar", "url", "api_key", "http_url", "uuid", "ip", "json_data", "xml",
	"Payload", "Result", "body", "err", "res", "v", "Client", "Server", "New", "ctx", "p", "s", "e", "c", "w", "r", "mux", "decoder", "encoder", "resp", "req", "view", "goa", "goahttp", "context", "fmt", "http", "strconv",
	"1st", "2_x", "a.b", "with space", "dash-ed", "Ünï", "_lead", "trail_", "ID", "Id", "iD"}

// keywordNames: the part of the hostile pool goa is expected to cope with
// (Goify escapes reserved words and sanitises characters): Go keywords,
// predeclared identifiers, acronyms, separators, non-ASCII, and names equal to
// identifiers the generated code declares itself. Names that collide with each
// other after Goify, start with a digit, or equal a package the generated code
// imports are left to the full hostile pool.
var keywordNames = []string{"type", "func", "range", "map", "string", "error", "nil", "len", "int", "bool", "any", "package", "import", "var", "default", "switch", "select", "go", "chan", "interface", "struct", "return",
	"foo-bar", "url", "api_key", "http_url", "uuid", "ip", "json_data", "xml",
	"Result", "Client", "Server", "New", "s", "e", "c", "w", "decoder", "encoder", "view",
	"a.b", "with space", "dash-ed", "Ünï", "_lead", "trail_"}

func (g *G) pickName(pool []string, scope map[string]bool, label string) string {
	for try := 0; try < 40; try++ {
		n := rapid.SampledFrom(pool).Draw(g.t, label)
		k := n
		if g.p.Runtime {
			k = norm(n)
		}
		if k == "" || scope[k] {
			continue
		}
		scope[k] = true
		return n
	}
	// fall back to a fresh synthetic name
	for i := 0; ; i++ {
		n := fmt.Sprintf("f%d", i)
		if !scope[n] {
			scope[n] = true
			return n
		}
	}
}

func (g *G) fieldName(scope map[string]bool) string {
	if (g.p.HostileNames || g.p.HostileFields) && rapid.IntRange(0, 3).Draw(g.t, "hostile") == 0 {
		g.feat("hostile-name")
		if !g.p.HostileNames {
			return g.pickName(keywordNames, scope, "hname")
		}
		return g.pickName(hostileNames, scope, "hname")
	}
	return g.pickName(plainNames, scope, "fname")
}

// Design generates a design for the profile.
func Design(p Profile) *rapid.Generator[*m.Design] {
	return rapid.Custom(func(t *rapid.T) *m.Design {
		g := &G{t: t, p: p, d: &m.Design{}, used: map[string]bool{}, features: map[string]bool{}}
		g.design()
		var fs []string
		for f := range g.features {
			fs = append(fs, f)
		}
		sort.Strings(fs)
		g.d.Features = fs
		// spelling variants of the same design (see model.Design.Style); drawn
		// last so that the design itself does not depend on it
		g.d.Style = rapid.Uint64().Draw(t, "style")
		return g.d
	})
}

var apiNames = []string{"calc", "store", "api", "svc_api", "cellar", "Test API", "x"}

func (g *G) design() {
	t := g.t
	d := g.d
	d.API.Name = rapid.SampledFrom(apiNames).Draw(t, "api")
	if g.p.Runtime {
		d.API.Name = rapid.SampledFrom([]string{"calc", "store", "cellar", "api"}).Draw(t, "apiname")
	}
	d.API.Title = "Generated " + d.API.Name
	d.API.Version = rapid.SampledFrom([]string{"", "1.0", "0.0.1"}).Draw(t, "version")
	d.API.Server = rapid.Bool().Draw(t, "server")
	if g.p.BasePaths && rapid.IntRange(0, 3).Draw(t, "apibase") == 0 {
		d.API.BasePath = rapid.SampledFrom([]string{"/api", "/v1", "/api/v2"}).Draw(t, "apibasepath")
		g.feat("api-base-path")
	}
	// user types
	if g.p.UserTypes {
		n := rapid.IntRange(0, 4).Draw(t, "ntypes")
		for i := 0; i < n; i++ {
			g.userType()
		}
	}
	if nestedRequiredNameClash(d, false) && g.avoid("C08-nested-result-type-requiredness-read-from-nested-type") {
		nestedRequiredNameClash(d, true)
	}
	if g.p.Security {
		g.schemes()
	}
	if g.p.Errors && rapid.IntRange(0, 1).Draw(t, "apierr") == 0 {
		e := &m.ErrorDef{Name: "api_error"}
		d.API.Errors = append(d.API.Errors, e)
		d.API.ErrorResp = append(d.API.ErrorResp, &m.ErrorResponse{Name: e.Name, Status: 503, Level: "api"})
		g.feat("api-level-error")
	}
	ns := rapid.IntRange(1, g.p.MaxServices).Draw(t, "nservices")
	svcScope := map[string]bool{}
	for i := 0; i < ns; i++ {
		g.service(svcScope)
	}
	// some services are served over gRPC as well as HTTP (same methods, two
	// transports): the transports finalize the same method expressions one
	// after the other
	if g.p.DualTransport {
		dual := false
		for _, s := range d.Services {
			if !s.HasHTTP || len(s.Files) > 0 || rapid.IntRange(0, 2).Draw(t, "dual") != 0 {
				continue
			}
			ok := true
			for _, meth := range s.Methods {
				if meth.Streaming != "" || (meth.HTTP != nil && (meth.HTTP.Multipart || meth.HTTP.SkipReqBody || meth.HTTP.SkipRespBody)) {
					ok = false
				}
			}
			if ok && g.p.Recursive {
				// (the gRPC generators do not terminate on recursive types: open finding)
				probe := &m.Design{Types: d.Types, Services: []*m.Service{{Name: s.Name, Methods: nil}}}
				for _, meth := range s.Methods {
					probe.Services[0].Methods = append(probe.Services[0].Methods, &m.Method{Name: meth.Name, Payload: meth.Payload, Result: meth.Result, GRPC: &m.GRPCEndpoint{}})
				}
				if hasGRPCRecursiveType(probe) && g.avoid("C01-gen-hangs-grpc-recursive-type") {
					ok = false
				}
			}
			if !ok {
				continue
			}
			s.HasGRPC = true
			for _, meth := range s.Methods {
				meth.GRPC = &m.GRPCEndpoint{}
				flattenInline(meth.Payload)
				flattenInline(meth.Result)
			}
			dual = true
		}
		if dual {
			for _, ut := range d.Types {
				flattenInline(ut.Attr)
			}
			if g.avoid("C10-nested-collection-wrappers-share-one-validator") {
				stripNestedCollectionValidations(d)
			}
			assignTags(t, d)
			g.feat("dual-transport")
		}
	}
	// documentation metadata (drawn after everything else)
	if g.p.Meta {
		d.API.Meta = g.docMeta("api")
		for _, s := range d.Services {
			s.Meta = g.docMeta("svc")
			for _, meth := range s.Methods {
				if meth.HTTP != nil {
					meth.HTTP.Meta = g.docMeta("ep")
				}
			}
		}
	}
}

var typeNames = []string{"Item", "Inner", "Node", "Account", "Point", "Entry", "Opts", "Leaf", "Bottle", "Tree"}

func (g *G) newTypeName() string {
	scope := g.used
	pool := typeNames
	if g.p.HostileNames && rapid.IntRange(0, 4).Draw(g.t, "hostiletype") == 0 {
		pool = []string{"Payload", "Result", "Client", "Server", "Endpoints", "Service", "error", "string", "Type", "foo_bar", "FooBar", "Error", "View", "Body", "RequestBody", "ResponseBody"}
		g.feat("hostile-type-name")
	}
	for try := 0; try < 30; try++ {
		n := rapid.SampledFrom(pool).Draw(g.t, "tname")
		k := "T:" + norm(n)
		if !scope[k] {
			scope[k] = true
			return n
		}
	}
	g.typeSeq++
	n := fmt.Sprintf("Gen%d", g.typeSeq)
	scope["T:"+norm(n)] = true
	return n
}

func (g *G) newVar() string {
	g.typeSeq++
	return fmt.Sprintf("v%d", g.typeSeq)
}

// userType adds one user type: an object type, an alias, or (profile
// permitting) a result type with views.
func (g *G) userType() {
	t := g.t
	kind := rapid.IntRange(0, 9).Draw(t, "utkind")
	if g.p.ViewHeavy && kind >= 4 {
		kind = 2
	}
	switch {
	case kind <= 1 && g.p.Aliases:
		// primitive alias with optional validation
		k := rapid.SampledFrom([]m.Kind{m.String, m.String, m.Int, m.Int64, m.Float64, m.UInt32, m.Boolean}).Draw(t, "aliaskind")
		a := m.Prim(k)
		if g.p.Validations {
			a.V = g.validation(a, 2)
		}
		if g.p.AliasDefaults && g.p.Defaults && k != m.UInt32 && rapid.IntRange(0, 2).Draw(t, "aliasdefault") == 0 {
			g.setDefault(a)
			if a.Default != nil {
				g.feat("alias-type-default")
			}
		}
		ut := &m.UserType{Name: g.newTypeName(), Attr: a, Var: g.newVar()}
		g.d.Types = append(g.d.Types, ut)
		g.feat("alias")
	case kind == 2 && g.p.ResultTypes:
		g.resultType()
	default:
		name := g.newTypeName()
		ut := &m.UserType{Name: name, Var: g.newVar()}
		// register first so that recursive references can name it
		g.d.Types = append(g.d.Types, ut)
		obj := g.object(2, name)
		ut.Attr = &m.Attr{Type: obj}
		tameRecursion(ut.Attr, name)
		if refsType(obj, name) && g.avoid("C01-gen-hangs-recursive-type-with-union") {
			dropUnions(ut.Attr)
		}
	}
}

func (g *G) resultType() {
	t := g.t
	name := g.newTypeName()
	ut := &m.UserType{Name: name, Var: g.newVar(), Result: true}
	ut.Identifier = "application/vnd." + strings.ToLower(norm(name))
	g.d.Types = append(g.d.Types, ut)
	obj := g.object(1, name)
	if len(obj.Fields) == 0 {
		obj.Fields = append(obj.Fields, &m.Field{Name: "id", Attr: m.Prim(m.Int)})
	}
	ut.Attr = &m.Attr{Type: obj}
	tameRecursion(ut.Attr, name)
	// open finding: two self-referencing attributes lose data in the projection code
	selfRefs := 0
	for _, f := range obj.Fields {
		if refsType(f.Attr.Type, name) {
			selfRefs++
			if selfRefs > 1 && g.avoid("C08-recursive-result-type-two-self-refs-loses-attribute") {
				f.Attr = m.Prim(m.String)
			}
		}
	}
	if selfRefs > 0 {
		// same finding: next to a self reference, an attribute that is another
		// result type is lost in nested occurrences as well
		for _, f := range obj.Fields {
			if !refsType(f.Attr.Type, name) && g.refsResultType(f.Attr.Type) && g.avoid("C08-recursive-result-type-two-self-refs-loses-attribute") {
				f.Attr = m.Prim(m.String)
			}
		}
	}
	// views: default (all or most fields) + 0-2 others
	def := &m.View{Name: "default"}
	partial := rapid.IntRange(0, 3).Draw(t, "partialdefault") == 0
	for _, f := range obj.Fields {
		// the default view may leave optional attributes out (also when it is the only view)
		if partial && !f.Required && len(def.Fields) > 0 && rapid.Bool().Draw(t, "indefault") {
			g.feat("default-view-omits-attributes")
			continue
		}
		def.Fields = append(def.Fields, g.viewField(f))
	}
	ut.Views = append(ut.Views, def)
	nv := rapid.IntRange(0, 2).Draw(t, "nviews")
	if g.p.ViewHeavy && nv == 0 {
		nv = 1
	}
	vnames := []string{"tiny", "full", "link", "extended"}
	for i := 0; i < nv; i++ {
		v := &m.View{Name: vnames[i]}
		for _, f := range obj.Fields {
			if rapid.Bool().Draw(t, "inview") {
				v.Fields = append(v.Fields, g.viewField(f))
			}
		}
		if len(v.Fields) == 0 {
			v.Fields = append(v.Fields, g.viewField(obj.Fields[0]))
		}
		// open finding: a view omitting a required object attribute makes the client panic
		for _, f := range obj.Fields {
			if !f.Required || (g.d.Underlying(f.Attr) != m.Object && f.Attr.Type.Kind != m.User && f.Attr.Type.Kind != m.Union) {
				continue // (a union is converted the same way: its value is dereferenced when the result is built)
			}
			in := false
			for _, vf := range v.Fields {
				if vf.Name == f.Name {
					in = true
				}
			}
			if !in && g.avoid("C08-required-object-absent-client-panic") {
				v.Fields = append(v.Fields, g.viewField(f))
			}
		}
		// open finding (generic transform helper of recursive result types):
		// a required attribute the view omits is dereferenced by the client
		if selfRefs > 0 {
			for _, f := range obj.Fields {
				if !f.Required {
					continue
				}
				in := false
				for _, vf := range v.Fields {
					if vf.Name == f.Name {
						in = true
					}
				}
				if !in && g.avoid("C08-recursive-result-type-two-self-refs-loses-attribute") {
					v.Fields = append(v.Fields, g.viewField(f))
				}
			}
		}
		ut.Views = append(ut.Views, v)
	}
	g.feat("result-type")
	if len(ut.Views) > 1 {
		g.feat("multi-view")
	}
}

// refsResultType reports whether the type is, or is a collection of, a result type.
func (g *G) refsResultType(t *m.Type) bool {
	if t == nil {
		return false
	}
	switch t.Kind {
	case m.User:
		ut := g.d.TypeByName(t.User)
		return ut != nil && ut.Result
	case m.Array:
		return g.refsResultType(t.Elem.Type)
	case m.Map:
		return g.refsResultType(t.Val.Type)
	}
	return false
}

func (g *G) viewField(f *m.Field) m.ViewField {
	vf := m.ViewField{Name: f.Name}
	// nested result type: optionally pick one of its views
	if f.Attr.Type.Kind == m.User {
		if ut := g.d.TypeByName(f.Attr.Type.User); ut != nil && ut.Result && len(ut.Views) > 1 && rapid.Bool().Draw(g.t, "nestedview") &&
			!(ut.Attr != nil && g.d.FieldByName(ut.Attr, f.Name) == f && g.avoid("C01-recursive-result-type-nested-view")) {
			vf.View = ut.Views[rapid.IntRange(0, len(ut.Views)-1).Draw(g.t, "whichview")].Name
			g.feat("nested-view-override")
		}
	}
	return vf
}

// object generates an object type with up to MaxFields fields. self is the
// name of the user type being defined (for recursion), or "".
func (g *G) object(depth int, self string) *m.Type {
	t := g.t
	n := rapid.IntRange(1, g.p.MaxFields).Draw(t, "nfields")
	scope := map[string]bool{}
	obj := &m.Type{Kind: m.Object}
	for i := 0; i < n; i++ {
		f := &m.Field{Name: g.fieldName(scope)}
		f.Attr = g.attr(depth, self)
		if f.Attr.Type.Kind == m.Union {
			// open finding: two OneOf attributes with the same name share the
			// Go types of the first one's alternatives
			k := "U:" + norm(f.Name)
			if g.used[k] && g.avoid("C03-unions-with-the-same-name-share-alternative-types") {
				g.typeSeq++
				f.Name = fmt.Sprintf("choice%d", g.typeSeq)
				k = "U:" + norm(f.Name)
			}
			g.used[k] = true
		}
		f.Required = rapid.IntRange(0, 2).Draw(t, "required") == 0
		if f.Attr.Default != nil && f.Required && rapid.Bool().Draw(t, "reqdefault") {
			f.Required = false
		}
		obj.Fields = append(obj.Fields, f)
	}
	return obj
}

// attr generates an attribute of a random type.
func (g *G) attr(depth int, self string) *m.Attr {
	t := g.t
	a := &m.Attr{Type: g.typ(depth, self)}
	if g.p.Validations && a.Type.Kind != m.User && rapid.IntRange(0, 2).Draw(t, "hasval") == 0 {
		// (a user type carries its own validations; adding use-site ones could contradict them)
		a.V = g.validation(a, depth)
	}
	if g.p.Defaults && rapid.IntRange(0, 4).Draw(t, "hasdefault") == 0 {
		g.setDefault(a)
	}
	if a.Type.Kind == m.User && g.p.ViewHeavy {
		// a view chosen at the type level: Attribute("x", T, func(){ View("tiny") })
		if ut := g.d.TypeByName(a.Type.User); ut != nil && ut.Result && ut.CollectionOf == "" && len(ut.Views) > 1 && ut.Name != self && rapid.IntRange(0, 3).Draw(t, "typelevelview") == 0 {
			a.View = ut.Views[rapid.IntRange(0, len(ut.Views)-1).Draw(t, "whichtypeview")].Name
			g.feat("type-level-nested-view")
		}
	}
	if a.Type.Kind == m.User && a.Default == nil {
		if ut := g.d.TypeByName(a.Type.User); ut != nil && ut.Attr != nil && ut.Attr.Type.Kind != m.Object && ut.Attr.Type.Kind != m.User && ut.Attr.Default != nil {
			dv := *ut.Attr.Default
			a.Default, a.DefaultFromAlias = &dv, true
			g.feat("default-inherited-from-alias")
		}
	}
	if rapid.IntRange(0, 5).Draw(t, "hasdesc") == 0 {
		a.Desc = rapid.SampledFrom([]string{"A description", "It's \"quoted\"", "multi\nline", "with `backtick`", "100% */ /* done"}).Draw(t, "desc")
	}
	if g.p.Meta && rapid.IntRange(0, 6).Draw(t, "hasmeta") == 0 {
		g.meta(a)
	}
	return a
}

// docMeta draws metadata for an API, a service or an HTTP endpoint: several
// OpenAPI tags (with descriptions), extensions, an operation summary. Sets
// with several keys are where an order leak (map iteration) would show.
func (g *G) docMeta(label string) [][]string {
	t := g.t
	if !g.p.Meta || rapid.IntRange(0, 2).Draw(t, label+"docmeta") != 0 {
		return nil
	}
	var out [][]string
	names := rapid.Permutation([]string{"alpha", "beta", "gamma", "delta", "epsilon", "zeta"}).Draw(t, label+"tagnames")
	n := rapid.IntRange(1, 5).Draw(t, label+"ntags")
	for _, name := range names[:n] {
		out = append(out, []string{"openapi:tag:" + name})
		if rapid.Bool().Draw(t, label+"tagdesc") {
			out = append(out, []string{"openapi:tag:" + name + ":desc", "about " + name})
		}
	}
	if rapid.Bool().Draw(t, label+"ext") {
		out = append(out, []string{"openapi:extension:x-" + label, `{"a":1}`})
		// a design half-way through the swagger: -> openapi: renaming: the same
		// extensions under both prefixes with different values (openapi: wins)
		if rapid.Bool().Draw(t, label+"legacyext") {
			out = append(out, []string{"swagger:extension:x-" + label, `{"a":2}`})
			for _, n := range []string{"one", "two", "three"} {
				out = append(out, []string{"openapi:extension:x-" + label + "-" + n, `"new"`}, []string{"swagger:extension:x-" + label + "-" + n, `"old"`})
			}
			g.feat("doc-meta-extension-under-both-prefixes")
		}
	}
	g.feat("doc-meta")
	if n >= 2 {
		g.feat("doc-meta>=2-tags")
	}
	return out
}

func (g *G) meta(a *m.Attr) {
	t := g.t
	opts := [][]string{
		{"struct:tag:json", "jname,omitempty"},
		{"struct:tag:xml", "xname"},
		{"struct:tag:form", "fname"},
		{"openapi:example", "false"},
		{"openapi:extension:x-foo", `{"a":1}`},
		{"swagger:example", "false"},
		{"custom:meta", "v1", "v2"},
	}
	n := rapid.IntRange(1, 3).Draw(t, "nmeta")
	seen := map[string]bool{}
	for i := 0; i < n; i++ {
		o := rapid.SampledFrom(opts).Draw(t, "meta")
		if seen[o[0]] {
			continue
		}
		seen[o[0]] = true
		a.Meta = append(a.Meta, o)
	}
	g.feat("attr-meta")
	if len(a.Meta) >= 2 {
		g.feat("attr-meta>=2")
	}
}

func (g *G) prim() m.Kind {
	ks := []m.Kind{m.Boolean, m.Int, m.Int32, m.Int64, m.UInt, m.UInt32, m.UInt64, m.Float32, m.Float64, m.String, m.String, m.String}
	if g.p.Bytes {
		ks = append(ks, m.Bytes)
	}
	if g.p.Any {
		ks = append(ks, m.Any)
	}
	return rapid.SampledFrom(ks).Draw(g.t, "prim")
}

func (g *G) typ(depth int, self string) *m.Type {
	t := g.t
	c := rapid.IntRange(0, 19).Draw(t, "typeclass")
	switch {
	case c <= 9 || depth <= 0:
		return &m.Type{Kind: g.prim()}
	case c <= 12:
		g.feat("array")
		elem := &m.Attr{Type: g.typ(depth-1, self)}
		if g.p.ParamHeavy && rapid.IntRange(0, 9).Draw(t, "primelem") < 7 {
			elem = m.Prim(rapid.SampledFrom([]m.Kind{m.String, m.String, m.String, m.Int, m.Float64, m.Boolean, m.UInt32, m.Int64}).Draw(t, "elemkind"))
		}
		if elem.Type.Kind == m.Object || elem.Type.Kind == m.Union {
			elem.Type = &m.Type{Kind: g.prim()}
		}
		if g.p.Validations && elem.Type.Kind != m.User && rapid.IntRange(0, 3).Draw(t, "elemval") == 0 {
			elem.V = g.validation(elem, 0)
			g.feat("elem-validation")
		}
		return &m.Type{Kind: m.Array, Elem: elem}
	case c == 13 && g.p.Maps:
		g.feat("map")
		key := m.Prim(rapid.SampledFrom([]m.Kind{m.String, m.String, m.String, m.Int, m.UInt32}).Draw(t, "mapkey"))
		if g.p.Runtime {
			key = m.Prim(m.String)
		}
		val := &m.Attr{Type: g.typ(depth-1, self)}
		if val.Type.Kind == m.Object || val.Type.Kind == m.Union {
			val.Type = &m.Type{Kind: g.prim()}
		}
		if g.p.Validations && val.Type.Kind != m.User && rapid.IntRange(0, 3).Draw(t, "mapval") == 0 {
			val.V = g.validation(val, 0)
			g.feat("map-elem-validation")
		}
		if g.p.Validations && key.Type.Kind == m.String && rapid.IntRange(0, 4).Draw(t, "mapkeyval") == 0 {
			key.V = g.validation(key, 0)
			g.feat("map-key-validation")
		}
		return &m.Type{Kind: m.Map, Key: key, Val: val}
	case c <= 15:
		if g.inlineLevel >= 1 && g.avoid("C01-nested-inline-object") {
			return &m.Type{Kind: g.prim()}
		}
		g.feat("inline-object")
		if g.inlineLevel >= 1 {
			g.feat("nested-inline-object")
		}
		g.inlineLevel++
		o := g.object(depth-1, self)
		g.inlineLevel--
		return o
	case c <= 18 && len(g.d.Types) > 0:
		// reference to a user type (possibly the one being defined: recursion)
		if g.inlineLevel >= 1 && g.avoid("C01-usertype-in-inline-object") {
			return &m.Type{Kind: g.prim()}
		}
		cands := []string{}
		for _, ut := range g.d.Types {
			if ut.Attr == nil && ut.Name != self {
				continue // being defined elsewhere
			}
			if ut.Name == self && !g.p.Recursive {
				continue
			}
			cands = append(cands, ut.Name)
		}
		if len(cands) == 0 {
			return &m.Type{Kind: g.prim()}
		}
		n := rapid.SampledFrom(cands).Draw(t, "usertype")
		if n == self {
			g.feat("recursive-type")
		}
		g.feat("user-type-ref")
		return &m.Type{Kind: m.User, User: n}
	case c == 19 && g.p.Unions:
		if g.inlineLevel >= 1 && g.avoid("C01-union-in-inline-object") {
			return &m.Type{Kind: g.prim()}
		}
		g.feat("union")
		u := &m.Type{Kind: m.Union}
		n := rapid.IntRange(2, 3).Draw(t, "nunion")
		scope := map[string]bool{}
		for i := 0; i < n; i++ {
			alt := m.Prim(rapid.SampledFrom([]m.Kind{m.String, m.Int, m.Boolean, m.Float64}).Draw(t, "ukind"))
			if g.p.Validations && g.p.Runtime && rapid.Bool().Draw(t, "uval") && !g.avoid("C04-union-alternative-validations-not-enforced") {
				alt.V = g.validation(alt, 0)
			}
			u.Fields = append(u.Fields, &m.Field{Name: g.pickName([]string{"alt_a", "alt_b", "alt_c", "num", "text"}, scope, "uname"), Attr: alt})
		}
		return u
	}
	return &m.Type{Kind: g.prim()}
}

// ---------------------------------------------------------------- validations

// PatternInfo is a pattern with generators for matching and non-matching strings.
type PatternInfo struct {
	Pattern  string
	Match    []string
	NonMatch []string
}

// Patterns is the pool of regular expressions used in designs.
var Patterns = []PatternInfo{
	{`^[a-z]+$`, []string{"a", "abc", "zzzzzz", "qwerty"}, []string{"", "A", "ab1", "a b", "é"}},
	{`^[0-9]{2,4}$`, []string{"12", "123", "1234", "00"}, []string{"1", "12345", "12a", ""}},
	{`^a.*z$`, []string{"az", "abcz", "a z", "a%41z", "a/z?&=z"}, []string{"a", "z", "za", ""}},
	{`[A-Z]`, []string{"A", "xAx", "ÉA", "a Z"}, []string{"", "abc", "123", "é"}},
	{`^\d+-\w+$`, []string{"1-a", "42-foo_bar", "007-x9"}, []string{"-a", "1-", "a-1!", "1 - a"}},
}

// Formats lists DSL format constants with valid and invalid instances.
var Formats = map[string]struct{ Valid, Invalid []string }{
	"FormatDate":     {[]string{"2020-02-29", "1999-12-31", "0001-01-01"}, []string{"2020-13-01", "20200101", "2021-02-30", "x", ""}},
	"FormatDateTime": {[]string{"2020-02-29T12:30:45Z", "1999-12-31T23:59:59+01:00", "2001-01-01T00:00:00.123Z"}, []string{"2020-02-29 12:30:45", "2020-02-29T25:00:00Z", "yesterday", ""}},
	"FormatUUID":     {[]string{"123e4567-e89b-12d3-a456-426614174000", "FFFFFFFF-FFFF-4FFF-BFFF-FFFFFFFFFFFF"}, []string{"123e4567-e89b-12d3-a456", "zzze4567-e89b-12d3-a456-426614174000", "", "123e4567e89b12d3a456426614174000x"}},
	"FormatEmail":    {[]string{"a@b.co", "first.last@example.com", "x+tag@sub.example.org"}, []string{"a@", "@b.co", "plain", ""}},
	"FormatIPv4":     {[]string{"127.0.0.1", "10.0.0.255", "192.168.1.1"}, []string{"256.0.0.1", "1.2.3", "::1", "a.b.c.d", ""}},
	"FormatIPv6":     {[]string{"::1", "2001:db8::ff00:42:8329", "fe80::1"}, []string{"127.0.0.1", "2001:db8:::1", "gggg::1", ""}},
	"FormatIP":       {[]string{"127.0.0.1", "::1", "2001:db8::1"}, []string{"300.1.1.1", "1.2.3", "nope", ""}},
	"FormatURI":      {[]string{"http://example.com/a?b=c", "https://a.b/c%20d", "ftp://h/x"}, []string{"://nope", "nope", "%zz", ""}},
	"FormatMAC":      {[]string{"01:23:45:67:89:ab", "01-23-45-67-89-AB", "0123.4567.89ab"}, []string{"01:23:45:67:89", "zz:23:45:67:89:ab", "", "01:23:45:67:89:ab:cd:ef:01"}},
	"FormatCIDR":     {[]string{"10.0.0.0/8", "192.168.1.0/24", "2001:db8::/32"}, []string{"10.0.0.0", "10.0.0.0/33", "x/8", ""}},
	"FormatRegexp":   {[]string{"^a+$", "[0-9]{2}", "a|b"}, []string{"(", "[a-", "a{2,1}", "*a"}},
	"FormatJSON":     {[]string{`{"a":1}`, `[1,2]`, `"s"`, `null`}, []string{`{a:1}`, `[1,`, ``, `'s'`}},
	"FormatRFC1123":  {[]string{"Mon, 02 Jan 2006 15:04:05 MST", "Sat, 29 Feb 2020 00:00:00 GMT"}, []string{"2006-01-02", "Mon, 32 Jan 2006 15:04:05 MST", ""}},
}

// FormatNames lists the format constants in a fixed order.
var FormatNames = func() []string {
	var n []string
	for k := range Formats {
		n = append(n, k)
	}
	sort.Strings(n)
	return n
}()

func fp(f float64) *float64 { return &f }
func ip(i int) *int         { return &i }

// validation generates validation keywords that fit the attribute's type and
// that are satisfiable by construction (the value generator relies on this).
func (g *G) validation(a *m.Attr, depth int) *m.Validation {
	t := g.t
	k := g.d.Underlying(a)
	v := &m.Validation{}
	switch {
	case k == m.String:
		switch rapid.IntRange(0, 4).Draw(t, "strval") {
		case 0:
			v.Enum = []value.V{value.Str("red"), value.Str("green"), value.Str("dark blue"), value.Str("é/%41+&=")}
			n := rapid.IntRange(1, 4).Draw(t, "nenum")
			v.Enum = v.Enum[:n]
			g.feat("enum")
		case 1:
			v.Format = rapid.SampledFrom(FormatNames).Draw(t, "format")
			g.feat("format")
		case 2:
			v.Pattern = Patterns[rapid.IntRange(0, len(Patterns)-1).Draw(t, "pattern")].Pattern
			g.feat("pattern")
		default:
			lo := rapid.IntRange(0, 5).Draw(t, "minlen")
			hi := lo + rapid.IntRange(0, 6).Draw(t, "lenspan")
			if hi == 0 {
				hi = 1 // a string that can only be empty cannot travel in every location
			}
			switch rapid.IntRange(0, 2).Draw(t, "lenkind") {
			case 0:
				v.MinLen = ip(lo)
			case 1:
				v.MaxLen = ip(hi)
			default:
				v.MinLen, v.MaxLen = ip(lo), ip(hi)
			}
			g.feat("string-length")
		}
	case k == m.Bytes:
		if g.avoid("C14-bytes-length-applied-to-base64-text") {
			return nil
		}
		lo := rapid.IntRange(0, 3).Draw(t, "bminlen")
		v.MinLen = ip(lo)
		v.MaxLen = ip(lo + rapid.IntRange(0, 8).Draw(t, "blenspan"))
		g.feat("bytes-length")
	case k.IsNumeric():
		if rapid.IntRange(0, 4).Draw(t, "numenum") == 0 {
			if k.IsFloat() {
				v.Enum = []value.V{value.Float(1.5), value.Float(-2), value.Float(100)}
				if k == m.Float32 {
					v.Enum = []value.V{value.Float(1.5), value.Float(-2)}
				}
			} else if k.IsUnsigned() {
				v.Enum = []value.V{value.Uint(1), value.Uint(7), value.Uint(42)}
			} else {
				v.Enum = []value.V{value.Int(1), value.Int(-7), value.Int(42)}
			}
			g.feat("numeric-enum")
			return v
		}
		lo := float64(rapid.IntRange(-20, 20).Draw(t, "min"))
		if k.IsUnsigned() {
			lo = float64(rapid.IntRange(0, 20).Draw(t, "umin"))
		}
		hi := lo + float64(rapid.IntRange(2, 50).Draw(t, "span"))
		if k.IsFloat() && rapid.Bool().Draw(t, "fracbound") {
			lo += 0.5
			hi += 0.25
		}
		bk := rapid.IntRange(0, 5).Draw(t, "boundkind")
		if bk >= 3 && g.avoid("C07-exclusive-bounds-as-numbers") {
			bk -= 3
		}
		switch bk {
		case 0:
			v.Min = fp(lo)
		case 1:
			v.Max = fp(hi)
		case 2:
			v.Min, v.Max = fp(lo), fp(hi)
		case 3:
			v.ExclMin = fp(lo)
			g.feat("exclusive-bound")
		case 4:
			v.ExclMax = fp(hi)
			g.feat("exclusive-bound")
		default:
			v.ExclMin, v.ExclMax = fp(lo), fp(hi)
			g.feat("exclusive-bound")
		}
		g.feat("numeric-bound")
	case k == m.Array || k == m.Map:
		if k == m.Map && g.avoid("C14-map-length-not-documented") {
			return nil
		}
		lo := rapid.IntRange(0, 3).Draw(t, "aminlen")
		hi := lo + rapid.IntRange(0, 4).Draw(t, "alenspan")
		if hi == 0 {
			hi = 1 // a collection that can only be empty cannot be told from an absent one in a query or header
		}
		switch rapid.IntRange(0, 2).Draw(t, "alenkind") {
		case 0:
			v.MinLen = ip(lo)
		case 1:
			v.MaxLen = ip(hi)
		default:
			v.MinLen, v.MaxLen = ip(lo), ip(hi)
		}
		g.feat("collection-length")
		// a map cannot have more entries than its key domain has values
		if res, _ := g.d.Resolve(a); res != nil && res.Type.Kind == m.Map && res.Type.Key != nil {
			kv := MergedValidation(g.d, res.Type.Key)
			max := -1
			if n := len(kv.Enum); n > 0 {
				max = n
			}
			if kv.Pattern != "" || kv.Format != "" {
				max = 2 // the value pools of patterns and formats are small
			}
			if max >= 0 {
				if v.MinLen != nil && *v.MinLen > max {
					v.MinLen = ip(max)
				}
				if v.MinLen != nil && v.MaxLen != nil && *v.MaxLen < *v.MinLen {
					v.MaxLen = ip(*v.MinLen)
				}
			}
		}
	default:
		return nil
	}
	return v
}

// setDefault gives the attribute a default that satisfies its validations.
func (g *G) setDefault(a *m.Attr) {
	k := g.d.Underlying(a)
	if !k.IsPrimitive() || k == m.Any || k == m.Bytes {
		return
	}
	if a.Type.Kind == m.User {
		return // defaults on aliases are set at the use site only for primitives
	}
	v := ValidValue(g.d, a, 0).Draw(g.t, "defaultval")
	if v.K == "uint" && ((k == m.UInt32 && v.U > 1<<31-1) || v.U > 1<<63-1) && g.avoid("C07-uint32-documented-as-int32") {
		v.U = 7
		if val := MergedValidation(g.d, a); val.Min != nil || val.ExclMin != nil || len(val.Enum) > 0 {
			return
		}
	}
	if v.K == "string" && v.S != "" {
		// a multi-line string whose first line starts with a tab is written by
		// yaml.v3 as a block scalar that yaml.v3 (the reader the checks use, and
		// other libyaml descendants) cannot read back although it is valid
		// YAML: outside the generated domain. A leading newline is dropped by
		// the YAML rendering (open finding).
		// The same holds for any multi-line string that starts with a blank
		// (" xZ\n…": "did not find expected key" when read back).
		if strings.Contains(v.S, "\n") && (v.S[0] == ' ' || v.S[0] == '\t') || v.S[0] == '\t' {
			v.S = "x" + v.S[1:]
		}
		if v.S[0] == '\n' && g.avoid("C07-yaml-drops-leading-newline-in-description") {
			v.S = "x" + v.S[1:]
		}
	}
	a.Default = &v
	g.feat("default")
}

// refsType reports whether the type mentions user type name without passing
// through another user type.
func refsType(t *m.Type, name string) bool {
	if t == nil || name == "" {
		return false
	}
	switch t.Kind {
	case m.User:
		return t.User == name
	case m.Array:
		return refsType(t.Elem.Type, name)
	case m.Map:
		return refsType(t.Val.Type, name) || refsType(t.Key.Type, name)
	case m.Object, m.Union:
		for _, f := range t.Fields {
			if refsType(f.Attr.Type, name) {
				return true
			}
		}
	}
	return false
}

// tameRecursion makes sure values of a recursive type can be finite: a
// reference to the type being defined is never required and the collections
// that contain it carry no minimum length.
func tameRecursion(a *m.Attr, self string) {
	if a == nil || a.Type == nil {
		return
	}
	switch a.Type.Kind {
	case m.Array:
		if refsType(a.Type, self) && a.V != nil {
			a.V.MinLen = nil
		}
		tameRecursion(a.Type.Elem, self)
	case m.Map:
		if refsType(a.Type, self) && a.V != nil {
			a.V.MinLen = nil
		}
		tameRecursion(a.Type.Val, self)
	case m.Object:
		for _, f := range a.Type.Fields {
			if refsType(f.Attr.Type, self) {
				f.Required = false
			}
			tameRecursion(f.Attr, self)
		}
	}
}

// schemes declares 1-4 security schemes and, sometimes, API-level requirements.
func (g *G) schemes() {
	t := g.t
	kinds := []string{"basic", "apikey", "jwt", "oauth2"}
	n := rapid.IntRange(1, 4).Draw(t, "nschemes")
	used := map[string]int{}
	for i := 0; i < n; i++ {
		k := rapid.SampledFrom(kinds).Draw(t, "schemekind")
		if k == "basic" && used["basic"] > 0 {
			k = "apikey" // one Basic scheme: there is one Authorization header
		}
		if used[k] > 0 && g.avoid("C01-two-schemes-same-type") {
			continue
		}
		used[k]++
		name := k
		if used[k] > 1 {
			name = fmt.Sprintf("%s%d", k, used[k])
		}
		sc := &m.Scheme{Kind: k, Name: name, Var: g.newVar()}
		if k == "jwt" || k == "oauth2" {
			ns := rapid.IntRange(0, 3).Draw(t, "nscopes")
			for j := 0; j < ns; j++ {
				sc.Scopes = append(sc.Scopes, []string{"api:read", "api:write", "admin"}[j])
			}
		}
		g.d.Schemes = append(g.d.Schemes, sc)
	}
	g.feat("security-schemes")
	if rapid.IntRange(0, 2).Draw(t, "apisec") == 0 {
		g.d.API.Security = g.requirements()
		g.feat("api-level-security")
	}
}

// requirements draws 1-3 alternative requirements of 1-2 schemes each.
func (g *G) requirements() []m.Requirement {
	t := g.t
	var out []m.Requirement
	n := rapid.IntRange(1, 3).Draw(t, "nreqs")
	for i := 0; i < n; i++ {
		var r m.Requirement
		k := rapid.IntRange(1, 2).Draw(t, "nreqschemes")
		seen := map[string]bool{}
		for j := 0; j < k; j++ {
			sc := g.d.Schemes[rapid.IntRange(0, len(g.d.Schemes)-1).Draw(t, "reqscheme")]
			if seen[sc.Name] {
				continue
			}
			seen[sc.Name] = true
			r.Schemes = append(r.Schemes, sc.Name)
			// required scopes: a subset of the scopes the schemes declare
			for _, s := range sc.Scopes {
				if rapid.Bool().Draw(t, "reqscope") {
					dup := false
					for _, x := range r.Scopes {
						if x == s {
							dup = true
						}
					}
					if !dup {
						r.Scopes = append(r.Scopes, s)
					}
				}
			}
		}
		out = append(out, r)
	}
	if len(out) > 1 {
		g.feat("alternative-requirements")
	}
	for _, r := range out {
		if len(r.Schemes) > 1 {
			g.feat("multi-scheme-requirement")
		}
	}
	return out
}

// SchemeByName returns the named scheme.
func SchemeByName(d *m.Design, name string) *m.Scheme {
	for _, s := range d.Schemes {
		if s.Name == name {
			return s
		}
	}
	return nil
}

// EffectiveSecurity returns the requirements that apply to a method: its own,
// else the service's, else the API's; none when the method says NoSecurity.
func EffectiveSecurity(d *m.Design, s *m.Service, meth *m.Method) []m.Requirement {
	switch {
	case meth.NoSecurity:
		return nil
	case len(meth.Security) > 0:
		return meth.Security
	case len(s.Security) > 0:
		return s.Security
	}
	return d.API.Security
}

// dropUnions replaces every union below a (not through user types) by a string.
func dropUnions(a *m.Attr) {
	if a == nil || a.Type == nil {
		return
	}
	switch a.Type.Kind {
	case m.Union:
		a.Type = &m.Type{Kind: m.String}
		a.V, a.Default = nil, nil
	case m.Array:
		dropUnions(a.Type.Elem)
	case m.Map:
		dropUnions(a.Type.Val)
	case m.Object:
		for _, f := range a.Type.Fields {
			dropUnions(f.Attr)
		}
	}
}
