package gen

import (
	"reflect"
	"sort"

	"pgregory.net/rapid"

	dt "verif/internal/dsltree"
)

// chaos generation: call trees built from the full table of exported DSL
// functions, each applied in any context, any order and multiplicity, with
// arguments drawn per parameter type.

var chaosFuncs = func() []string {
	var out []string
	for n := range dt.Funcs {
		switch n {
		case "Randomizer", "ConvertTo", "CreateFrom":
			// take Go values that a design file builds by hand (custom randomizer, external structs)
			continue
		}
		out = append(out, n)
	}
	sort.Strings(out)
	return out
}()

var chaosStrings = []string{"", "a", "id", "name", "Item", "Node", "missing", "default", "tiny", "/", "/a/{id}", "/{*rest}", "//abs/{x}", "/a/{id}/b/{id}", "{", "a:b", "a:b:c", "X-Header", "Authorization",
	"application/json", "application/vnd.x+json", "text/plain; charset=utf-8", "jwt", "basic", "api_key", "oauth2", "api:read", "http://localhost:80", "grpc://localhost:8080", "not a url", "struct:field:name", "struct:tag:json",
	"openapi:generate", "view", "rpc:tag", "type", "func", "error", "Ünï", "with space", "1st", "not_found", "localhost", "{version}", "special", "^[a-z]+$", "(", "\x00", "日本"}

var chaosInts = []int64{-1, 0, 1, 2, 3, 15, 16, 100, 200, 204, 404, 500, 599, 600, 19000, 536870911, 536870912, 1 << 40}

func constsAssignableTo(t reflect.Type) []string {
	var out []string
	for n, c := range dt.Consts {
		if c == nil {
			continue
		}
		ct := reflect.TypeOf(c)
		if ct.AssignableTo(t) && (t.Kind() == reflect.Interface || ct == t) {
			out = append(out, n)
		}
	}
	sort.Strings(out)
	return out
}

var anyConsts = func() []string {
	var out []string
	for n := range dt.Consts {
		out = append(out, n)
	}
	sort.Strings(out)
	return out
}()

type chaosGen struct {
	t    *rapid.T
	vars []string
	seq  int
	// budget bounds the total number of nodes
	budget int
}

var funcType = reflect.TypeOf(func() {})

func (c *chaosGen) arg(pt reflect.Type, depth int) (dt.Arg, bool) {
	t := c.t
	switch {
	case pt == funcType:
		return dt.Fn(c.body(depth - 1)...), true
	case pt.Kind() == reflect.String && pt.PkgPath() == "":
		return dt.S(rapid.SampledFrom(chaosStrings).Draw(t, "str")), true
	case pt.Kind() == reflect.Int:
		return dt.I(rapid.SampledFrom(chaosInts).Draw(t, "int")), true
	case pt.Kind() == reflect.Interface && pt.NumMethod() == 0:
		return c.anyArg(depth), true
	default:
		// typed constants (formats, data types, cookie same-site values …)
		if cs := constsAssignableTo(pt); len(cs) > 0 {
			if pt.Kind() == reflect.Interface && len(c.vars) > 0 && rapid.IntRange(0, 2).Draw(t, "useref") == 0 {
				return dt.Ref(rapid.SampledFrom(c.vars).Draw(t, "ref")), true
			}
			return dt.C(rapid.SampledFrom(cs).Draw(t, "const")), true
		}
	}
	return dt.Arg{}, false
}

func (c *chaosGen) anyArg(depth int) dt.Arg {
	t := c.t
	switch rapid.IntRange(0, 11).Draw(t, "anykind") {
	case 0:
		return dt.Nil()
	case 1, 2:
		return dt.S(rapid.SampledFrom(chaosStrings).Draw(t, "astr"))
	case 3:
		return dt.I(rapid.SampledFrom(chaosInts).Draw(t, "aint"))
	case 4:
		return dt.F(rapid.SampledFrom([]float64{-1.5, 0, 0.5, 1e30}).Draw(t, "afloat"))
	case 5:
		return dt.B(rapid.Bool().Draw(t, "abool"))
	case 6, 7:
		return dt.C(rapid.SampledFrom(anyConsts).Draw(t, "aconst"))
	case 8:
		if len(c.vars) > 0 {
			return dt.Ref(rapid.SampledFrom(c.vars).Draw(t, "aref"))
		}
		return dt.C("String")
	case 9:
		if depth > 0 {
			// a nested call that returns a value: ArrayOf, MapOf, Type, ResultType, CollectionOf …
			fn := rapid.SampledFrom([]string{"ArrayOf", "MapOf", "Type", "ResultType", "CollectionOf"}).Draw(t, "nested")
			if n, ok := c.call(fn, depth-1); ok {
				return dt.Call(n)
			}
		}
		return dt.C("Int")
	case 10:
		return dt.List(dt.S("x"), dt.I(1))
	default:
		if depth > 0 {
			return dt.Fn(c.body(depth - 1)...)
		}
		return dt.S("x")
	}
}

// call builds one well-typed call of the named function.
func (c *chaosGen) call(fn string, depth int) (*dt.Node, bool) {
	t := c.t
	c.budget--
	ft := reflect.TypeOf(dt.Funcs[fn])
	n := &dt.Node{Fn: fn}
	nfix := ft.NumIn()
	if ft.IsVariadic() {
		nfix--
	}
	for i := 0; i < nfix; i++ {
		a, ok := c.arg(ft.In(i), depth)
		if !ok {
			return nil, false
		}
		n.Args = append(n.Args, a)
	}
	if ft.IsVariadic() {
		et := ft.In(ft.NumIn() - 1).Elem()
		k := rapid.IntRange(0, 3).Draw(t, "nvariadic")
		for i := 0; i < k; i++ {
			a, ok := c.arg(et, depth)
			if !ok {
				break
			}
			n.Args = append(n.Args, a)
		}
	}
	if ft.NumOut() > 0 && rapid.IntRange(0, 3).Draw(t, "keepvar") == 0 {
		c.seq++
		n.Var = "c" + string(rune('a'+c.seq%26)) + string(rune('0'+c.seq/26%10))
	}
	return n, true
}

func (c *chaosGen) body(depth int) []*dt.Node {
	t := c.t
	if depth <= 0 || c.budget <= 0 {
		return nil
	}
	k := rapid.IntRange(0, 4).Draw(t, "nbody")
	var out []*dt.Node
	for i := 0; i < k && c.budget > 0; i++ {
		fn := rapid.SampledFrom(chaosFuncs).Draw(t, "fn")
		if n, ok := c.call(fn, depth); ok {
			out = append(out, n)
			if n.Var != "" {
				c.vars = append(c.vars, n.Var)
			}
		}
	}
	return out
}

// Chaos generates an arbitrary DSL program.
func Chaos() *rapid.Generator[*dt.Program] {
	return rapid.Custom(func(t *rapid.T) *dt.Program {
		c := &chaosGen{t: t, budget: 60}
		p := &dt.Program{}
		k := rapid.IntRange(1, 6).Draw(t, "ntop")
		for i := 0; i < k; i++ {
			// top-level: mostly the functions a design file starts with
			var fn string
			if rapid.IntRange(0, 3).Draw(t, "toplevelkind") == 0 {
				fn = rapid.SampledFrom(chaosFuncs).Draw(t, "topfn")
			} else {
				fn = rapid.SampledFrom([]string{"API", "Service", "Type", "ResultType", "JWTSecurity", "BasicAuthSecurity", "APIKeySecurity", "OAuth2Security", "Server"}).Draw(t, "topfn2")
			}
			if n, ok := c.call(fn, 5); ok {
				p.Nodes = append(p.Nodes, n)
				if n.Var != "" {
					c.vars = append(c.vars, n.Var)
				}
			}
		}
		return p
	})
}

// clone deep-copies a program.
func cloneNode(n *dt.Node) *dt.Node {
	if n == nil {
		return nil
	}
	c := *n
	c.Args = nil
	for _, a := range n.Args {
		c.Args = append(c.Args, cloneArg(a))
	}
	c.Body = nil
	for _, b := range n.Body {
		c.Body = append(c.Body, cloneNode(b))
	}
	return &c
}

func cloneArg(a dt.Arg) dt.Arg {
	c := a
	c.Call = cloneNode(a.Call)
	c.List = nil
	for _, e := range a.List {
		c.List = append(c.List, cloneArg(e))
	}
	c.Body = nil
	for _, b := range a.Body {
		c.Body = append(c.Body, cloneNode(b))
	}
	return c
}

// allBodies lists pointers to every body slice of a program (for edits).
func allBodies(p *dt.Program) []*[]*dt.Node {
	var out []*[]*dt.Node
	out = append(out, &p.Nodes)
	var walk func(n *dt.Node)
	walk = func(n *dt.Node) {
		if n.HasBody {
			out = append(out, &n.Body)
		}
		for _, b := range n.Body {
			walk(b)
		}
		for i := range n.Args {
			if n.Args[i].Call != nil {
				walk(n.Args[i].Call)
			}
		}
	}
	for _, n := range p.Nodes {
		walk(n)
	}
	return out
}

// NearValid applies 1-3 random edits (delete, duplicate, move a call, swap
// an argument, replace a string) to a valid program.
func NearValid(t *rapid.T, valid *dt.Program) (*dt.Program, []string) {
	p := &dt.Program{}
	for _, n := range valid.Nodes {
		p.Nodes = append(p.Nodes, cloneNode(n))
	}
	k := rapid.IntRange(1, 3).Draw(t, "nedits")
	var log []string
	for i := 0; i < k; i++ {
		bodies := allBodies(p)
		src := bodies[rapid.IntRange(0, len(bodies)-1).Draw(t, "srcbody")]
		if len(*src) == 0 {
			continue
		}
		idx := rapid.IntRange(0, len(*src)-1).Draw(t, "srcidx")
		node := (*src)[idx]
		switch rapid.SampledFrom([]string{"delete", "duplicate", "move", "swaparg", "string", "drop-body", "insert", "insert", "chaos-arg", "drop-arg", "extra-arg"}).Draw(t, "edit") {
		case "delete":
			*src = append(append([]*dt.Node{}, (*src)[:idx]...), (*src)[idx+1:]...)
			log = append(log, "delete "+node.Fn)
		case "duplicate":
			*src = append(*src, cloneNode(node))
			log = append(log, "duplicate "+node.Fn)
		case "move":
			dst := bodies[rapid.IntRange(0, len(bodies)-1).Draw(t, "dstbody")]
			if dst == src {
				continue
			}
			moved := cloneNode(node)
			moved.Var = ""
			*dst = append(*dst, moved)
			log = append(log, "move "+node.Fn)
		case "swaparg":
			if len(node.Args) >= 2 {
				node.Args[0], node.Args[1] = node.Args[1], node.Args[0]
				log = append(log, "swap args of "+node.Fn)
			}
		case "string":
			for j := range node.Args {
				if node.Args[j].Kind == "str" {
					node.Args[j].S = rapid.SampledFrom(chaosStrings).Draw(t, "newstr")
					log = append(log, "replace string of "+node.Fn)
					break
				}
			}
		case "insert":
			// a call of any DSL function, with arbitrary well-typed arguments, in this context
			c := &chaosGen{t: t, budget: 8}
			fn := rapid.SampledFrom(chaosFuncs).Draw(t, "insfn")
			if n, ok := c.call(fn, 2); ok {
				n.Var = ""
				at := rapid.IntRange(0, len(*src)).Draw(t, "insat")
				ns := append([]*dt.Node{}, (*src)[:at]...)
				ns = append(ns, n)
				*src = append(ns, (*src)[at:]...)
				log = append(log, "insert "+fn+" next to "+node.Fn)
			}
		case "chaos-arg":
			if len(node.Args) > 0 {
				j := rapid.IntRange(0, len(node.Args)-1).Draw(t, "argidx")
				ft := reflect.TypeOf(dt.Funcs[node.Fn])
				var pt reflect.Type
				switch {
				case ft.IsVariadic() && j >= ft.NumIn()-1:
					pt = ft.In(ft.NumIn() - 1).Elem()
				case j < ft.NumIn():
					pt = ft.In(j)
				}
				if pt != nil && pt != funcType {
					c := &chaosGen{t: t, budget: 8}
					if a, ok := c.arg(pt, 2); ok {
						node.Args[j] = a
						log = append(log, "arbitrary argument for "+node.Fn)
					}
				}
			}
		case "drop-arg":
			ft := reflect.TypeOf(dt.Funcs[node.Fn])
			if ft.IsVariadic() && len(node.Args) >= ft.NumIn() && !node.HasBody {
				node.Args = node.Args[:len(node.Args)-1]
				log = append(log, "drop last argument of "+node.Fn)
			}
		case "extra-arg":
			ft := reflect.TypeOf(dt.Funcs[node.Fn])
			if ft.IsVariadic() && !node.HasBody {
				c := &chaosGen{t: t, budget: 8}
				if a, ok := c.arg(ft.In(ft.NumIn()-1).Elem(), 2); ok {
					node.Args = append(node.Args, a)
					log = append(log, "extra argument for "+node.Fn)
				}
			}
		case "drop-body":
			if node.HasBody {
				node.Body = nil
				log = append(log, "empty body of "+node.Fn)
			}
		}
	}
	return p, log
}
