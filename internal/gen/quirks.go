package gen

import (
	"strings"

	"verif/internal/kf"
	m "verif/internal/model"
)

// Quirk ties a known finding to (a) a predicate over the design model that
// recognises the class of designs that trigger it and (b) a fragment of the
// failure signature, so that a different failure of a design that merely
// contains the feature is still reported.
type Quirk struct {
	ID     string
	Detect func(d *m.Design) bool
	// SigAny: the failure signature must contain one of these fragments ("" = any)
	SigAny []string
}

// Quirks lists the feature predicates of the C01 findings.
var Quirks = []Quirk{
	{ID: "C01-cookie-nonstring", Detect: hasNonStringCookie, SigAny: []string{"client/encode_decode"}},
	{ID: "C01-primitive-payload-header", Detect: hasPrimitivePayloadHeader, SigAny: []string{"client/encode_decode"}},
	{ID: "C01-nested-inline-object", Detect: hasNestedInlineObject, SigAny: []string{"/types", "struct{…}"}},
	{ID: "C01-usertype-in-inline-object", Detect: hasUserTypeInInlineObject, SigAny: []string{"undefined: _"}},
	{ID: "C01-body-attr-optional-nonpointer", Detect: hasBodyAttrOptionalNonPointer, SigAny: []string{"cannot use &_ (value of type *"}},
	{ID: "C01-path-param-named-p", Detect: hasPathParamNamedP, SigAny: []string{"client/encode_decode: cannot use"}},
	{ID: "C01-collection-of-result-type-with-inline-object", Detect: hasCollectionOfInlineObject, SigAny: []string{"struct{…}"}},
	{ID: "C01-recursive-result-type-nested-view", Detect: hasRecursiveNestedView, SigAny: []string{"server/encode_decode: cannot use"}},
	{ID: "C01-gen-hangs-recursive-type-with-union", Detect: hasRecursiveTypeWithUnion, SigAny: []string{"timeout"}},
	{ID: "C01-two-schemes-same-type", Detect: hasTwoSchemesSameType, SigAny: []string{"redeclared", "duplicate method"}},
	{ID: "C01-body-fields-user-type", Detect: hasBodyFieldsUserType, SigAny: []string{"client/types: cannot use _ (variable of type *struct{…}"}},
	{ID: "C01-body-fields-inline-required", Detect: hasBodyFieldsInlineRequired, SigAny: []string{"== nil (mismatched types", "cannot indirect"}},
	{ID: "C01-grpc-metadata-alias-type", Detect: hasGRPCMetadataAlias, SigAny: []string{"undefined: _", "cannot convert _"}},
	{ID: "C01-grpc-response-metadata", Detect: hasGRPCResponseMetadata, SigAny: []string{"encode_decode: undefined: _", "encode_decode: declared and not used", "as *string value in assignment"}},
	{ID: "C01-grpc-only-design-example-main", Detect: isGRPCOnly, SigAny: []string{"cmd: undefined: _"}},
	{ID: "C01-gen-hangs-grpc-recursive-type", Detect: hasGRPCRecursiveType, SigAny: []string{"timeout", "crash"}},
	{ID: "C01-response-cookie-nonstring", Detect: hasNonStringResponseCookie, SigAny: []string{"server/encode_decode"}},
	{ID: "C01-param-named-like-generated-local", Detect: hasParamNamedLikeLocal, SigAny: []string{"redeclared", "no new variables", "undefined (type", "cannot use", "invalid operation", "undefined: _"}},
	{ID: "C01-union-in-inline-object", Detect: hasUnionInInlineObject, SigAny: []string{"struct{…}"}},
	{ID: "C01-union-in-body-fields", Detect: hasUnionInBodyFields, SigAny: []string{"== nil (mismatched types", "cannot indirect", "cannot use &_ (value of type *struct{…}"}},
	{ID: "C01-result-type-response-cookie-with-default", Detect: hasResultTypeCookieWithDefault, SigAny: []string{"server/encode_decode: declared and not used"}},
	{ID: "C01-map-key-bool-or-float-gen-fails", Detect: hasBoolOrFloatMapKey, SigAny: []string{"gen-error"}},
	{ID: "C01-body-attr-recursive-validated-user-type", Detect: hasBodyAttrRecursiveValidatedUT, SigAny: []string{"client/cli: undefined: _"}},
	{ID: "C01-streaming-payload-validated-alias", Detect: hasStreamingPayloadValidatedAlias, SigAny: []string{"server/types: invalid operation: _ != nil (mismatched types", "client/types: invalid operation: _ != nil (mismatched types"}},
	{ID: "C04-validation-written-in-header-mapping-not-enforced", Detect: hasHeaderMappingValidation},
	{ID: "C10-nested-collection-wrappers-share-one-validator", Detect: hasValidatedNestedCollection},
	{ID: "C01-map-with-object-key-does-not-compile", Detect: hasObjectMapKey, SigAny: []string{"declared and not used: key"}},
	{ID: "C08-nested-result-type-requiredness-read-from-nested-type", Detect: func(d *m.Design) bool { return nestedRequiredNameClash(d, false) }},
	{ID: "C01-bytes-param-with-length-validation", Detect: hasBytesParamWithLength, SigAny: []string{"client/cli: undefined: _"}},
	{ID: "C01-result-type-required-validated-response-header", Detect: hasResultTypeRequiredValidatedHeader, SigAny: []string{"client/encode_decode: invalid operation: _ != nil (mismatched types"}},
}

// GeneratedLocals are identifiers the generated request/response encoders and
// decoders declare themselves; an attribute carried in a path segment, query
// parameter or header gets a Go variable named after it (lower camel case) in
// the same function.
var GeneratedLocals = map[string]bool{"r": true, "payload": true, "body": true, "err": true, "goa": true, "ctx": true, "mux": true, "ok": true, "p": true, "params": true, "req": true, "res": true, "resp": true, "v": true, "val": true}

// lowerCamel approximates codegen.Goify(name, false) for the names the generator uses.
func lowerCamel(s string) string {
	var b strings.Builder
	up := false
	for i, r := range s {
		switch {
		case r == '_' || r == '-' || r == ' ' || r == '.':
			up = b.Len() > 0
		case up:
			b.WriteString(strings.ToUpper(string(r)))
			up = false
		case i == 0 || b.Len() == 0:
			b.WriteString(strings.ToLower(string(r)))
		default:
			b.WriteRune(r)
		}
	}
	return b.String()
}

// hasParamNamedLikeLocal: a payload attribute carried in a path segment, query
// parameter or header (or a result attribute carried in a response header)
// whose Go variable name equals an identifier of the generated function.
func hasParamNamedLikeLocal(d *m.Design) bool {
	return eachMethod(d, func(s *m.Service, meth *m.Method) bool {
		if meth.HTTP == nil {
			return false
		}
		h := meth.HTTP
		for _, ms := range [][]m.Mapping{h.Path, h.Query, h.Headers} {
			for _, mp := range ms {
				if GeneratedLocals[lowerCamel(mp.Attr)] {
					return true
				}
			}
		}
		for _, r := range h.Responses {
			for _, mp := range r.Headers {
				if GeneratedLocals[lowerCamel(mp.Attr)] {
					return true
				}
			}
		}
		return false
	})
}

func isUnion(a *m.Attr) bool { return a != nil && a.Type != nil && a.Type.Kind == m.Union }

// hasUnionInInlineObject: a OneOf attribute inside an inline object attribute
// (an object below a payload, result or user type that is not a user type itself).
func hasUnionInInlineObject(d *m.Design) bool {
	for _, t := range d.Types {
		if inlineObjectHolds(t.Attr, 0, isUnion) {
			return true
		}
	}
	return eachMethod(d, func(s *m.Service, meth *m.Method) bool {
		return inlineObjectHolds(meth.Payload, 0, isUnion) || inlineObjectHolds(meth.Result, 0, isUnion)
	})
}

// hasUnionInBodyFields: an explicit body naming a OneOf attribute: request
// Body(func(){ Attribute(..) }) or Body("attr"), response Body("attr").
func hasUnionInBodyFields(d *m.Design) bool {
	return eachMethod(d, func(s *m.Service, meth *m.Method) bool {
		if meth.HTTP == nil {
			return false
		}
		if b := meth.HTTP.Body; b != nil && meth.Payload != nil {
			names := b.Fields
			if b.Mode == "attr" {
				names = []string{b.Attr}
			}
			for _, n := range names {
				if f := d.FieldByName(meth.Payload, n); f != nil && isUnion(f.Attr) {
					return true
				}
			}
		}
		if meth.Result != nil {
			for _, r := range meth.HTTP.Responses {
				if r.Body != nil && r.Body.Mode == "attr" {
					if f := d.FieldByName(meth.Result, r.Body.Attr); f != nil && isUnion(f.Attr) {
						return true
					}
				}
			}
		}
		return false
	})
}

// hasResultTypeCookieWithDefault: an attribute of a result type that declares
// a default and is carried in a response cookie.
func hasResultTypeCookieWithDefault(d *m.Design) bool {
	return eachMethod(d, func(s *m.Service, meth *m.Method) bool {
		if meth.HTTP == nil || meth.Result == nil || meth.Result.Type.Kind != m.User {
			return false
		}
		ut := d.TypeByName(meth.Result.Type.User)
		if ut == nil || !ut.Result {
			return false
		}
		for _, r := range meth.HTTP.Responses {
			for _, c := range r.Cookies {
				if f := d.FieldByName(meth.Result, c.Attr); f != nil && f.Attr.Default != nil {
					return true
				}
			}
		}
		return false
	})
}

// hasBoolOrFloatMapKey: a map whose key type is Boolean, Float32 or Float64 anywhere in the design.
func hasBoolOrFloatMapKey(d *m.Design) bool {
	var walk func(a *m.Attr, depth int) bool
	walk = func(a *m.Attr, depth int) bool {
		if a == nil || a.Type == nil || depth > 8 {
			return false
		}
		switch a.Type.Kind {
		case m.Map:
			if k := d.Underlying(a.Type.Key); k == m.Boolean || k == m.Float32 || k == m.Float64 {
				return true
			}
			return walk(a.Type.Val, depth+1)
		case m.Array:
			return walk(a.Type.Elem, depth+1)
		case m.Object, m.Union:
			for _, f := range a.Type.Fields {
				if walk(f.Attr, depth+1) {
					return true
				}
			}
		}
		return false
	}
	for _, t := range d.Types {
		if walk(t.Attr, 0) {
			return true
		}
	}
	return eachMethod(d, func(s *m.Service, meth *m.Method) bool { return walk(meth.Payload, 0) || walk(meth.Result, 0) })
}

// BodyAttrRecursiveValidatedUT: request Body("x") naming an attribute whose
// type is a recursive user type that carries validations.
func BodyAttrRecursiveValidatedUT(d *m.Design, meth *m.Method) bool {
	if meth.HTTP == nil || meth.HTTP.Body == nil || meth.HTTP.Body.Mode != "attr" || meth.Payload == nil {
		return false
	}
	f := d.FieldByName(meth.Payload, meth.HTTP.Body.Attr)
	if f == nil || f.Attr.Type.Kind != m.User {
		return false
	}
	ut := d.TypeByName(f.Attr.Type.User)
	if ut == nil || ut.Attr == nil || !isRecursiveType(d, ut.Name) {
		return false
	}
	has := false
	var walk func(a *m.Attr, depth int)
	walk = func(a *m.Attr, depth int) {
		if a == nil || a.Type == nil || depth > 6 || has {
			return
		}
		if !a.V.Empty() {
			has = true
			return
		}
		switch a.Type.Kind {
		case m.Object:
			for _, sub := range a.Type.Fields {
				if sub.Required {
					has = true
				}
				walk(sub.Attr, depth+1)
			}
		case m.Array:
			walk(a.Type.Elem, depth+1)
		case m.Map:
			walk(a.Type.Key, depth+1)
			walk(a.Type.Val, depth+1)
		}
	}
	walk(ut.Attr, 0)
	return has
}

func hasBodyAttrRecursiveValidatedUT(d *m.Design) bool {
	return eachMethod(d, func(s *m.Service, meth *m.Method) bool { return BodyAttrRecursiveValidatedUT(d, meth) })
}

// RefsValidatedAlias: the attribute's type reaches (through objects, arrays,
// maps and user types) a primitive alias user type that carries validations.
func RefsValidatedAlias(d *m.Design, a *m.Attr) bool {
	seen := map[string]bool{}
	var walk func(a *m.Attr, top bool) bool
	walk = func(a *m.Attr, top bool) bool {
		if a == nil || a.Type == nil {
			return false
		}
		switch a.Type.Kind {
		case m.User:
			ut := d.TypeByName(a.Type.User)
			if ut == nil || ut.Attr == nil || seen[ut.Name] {
				return false
			}
			seen[ut.Name] = true
			k := ut.Attr.Type.Kind
			if k != m.Object && k != m.User && !top && !ut.Attr.V.Empty() {
				return true
			}
			return walk(ut.Attr, false)
		case m.Array:
			return walk(a.Type.Elem, false)
		case m.Map:
			return walk(a.Type.Key, false) || walk(a.Type.Val, false)
		case m.Object, m.Union:
			for _, f := range a.Type.Fields {
				if walk(f.Attr, false) {
					return true
				}
			}
		}
		return false
	}
	return walk(a, true)
}

// hasStreamingPayloadValidatedAlias: an HTTP streaming payload whose type
// refers to a primitive alias user type with validations.
func hasStreamingPayloadValidatedAlias(d *m.Design) bool {
	return eachMethod(d, func(s *m.Service, meth *m.Method) bool {
		return meth.HTTP != nil && meth.StreamingPayload != nil && RefsValidatedAlias(d, meth.StreamingPayload)
	})
}

// hasHeaderMappingValidation: a validation written in the function of a Header or Cookie mapping.
func hasHeaderMappingValidation(d *m.Design) bool {
	return eachMethod(d, func(s *m.Service, meth *m.Method) bool {
		if meth.HTTP == nil || meth.Payload == nil {
			return false
		}
		for _, ms := range [][]m.Mapping{meth.HTTP.Headers, meth.HTTP.Cookies} {
			for _, mp := range ms {
				if f := d.FieldByName(meth.Payload, mp.Attr); f != nil && f.Attr.VAtMapping {
					return true
				}
			}
		}
		return false
	})
}

// hasValidatedNestedCollection: a gRPC design in which a collection nested in a
// collection (or its key / element) carries a validation.
func hasValidatedNestedCollection(d *m.Design) bool {
	grpc := false
	for _, s := range d.Services {
		if s.HasGRPC {
			grpc = true
		}
	}
	if !grpc {
		return false
	}
	found := false
	seen := map[*m.Attr]bool{}
	var walk func(a *m.Attr, inColl bool)
	has := func(a *m.Attr) bool { return a != nil && !a.V.Empty() }
	walk = func(a *m.Attr, inColl bool) {
		if a == nil || a.Type == nil || seen[a] || found {
			return
		}
		seen[a] = true
		switch a.Type.Kind {
		case m.Array:
			if inColl && (has(a) || has(a.Type.Elem)) {
				found = true
			}
			walk(a.Type.Elem, true)
		case m.Map:
			if inColl && (has(a) || has(a.Type.Key) || has(a.Type.Val)) {
				found = true
			}
			walk(a.Type.Key, true)
			walk(a.Type.Val, true)
		case m.Object, m.Union:
			for _, f := range a.Type.Fields {
				walk(f.Attr, false)
			}
		}
	}
	for _, ut := range d.Types {
		walk(ut.Attr, false)
	}
	for _, s := range d.Services {
		for _, meth := range s.Methods {
			walk(meth.Payload, false)
			walk(meth.Result, false)
			walk(meth.StreamingPayload, false)
		}
	}
	return found
}

// StripAliasMappingBounds removes the validations written in the HTTP mapping
// of attributes whose type is an alias user type and reports how many it
// removed (C14 steers away from them while the OpenAPI finding is open).
func StripAliasMappingBounds(d *m.Design) int {
	n := 0
	for _, s := range d.Services {
		for _, meth := range s.Methods {
			if meth.Payload == nil {
				continue
			}
			for _, f := range d.ObjectFields(meth.Payload) {
				if f.Attr.VAtMapping && f.Attr.Type.Kind == m.User {
					f.Attr.V, f.Attr.VAtMapping = nil, false
					n++
				}
			}
		}
	}
	return n
}

// hasBytesParamWithLength: a Bytes attribute with a length validation carried
// in a path segment, query parameter or header.
func hasBytesParamWithLength(d *m.Design) bool {
	return eachMethod(d, func(s *m.Service, meth *m.Method) bool {
		if meth.HTTP == nil || meth.Payload == nil {
			return false
		}
		h := meth.HTTP
		for _, ms := range [][]m.Mapping{h.Path, h.Query, h.Headers} {
			for _, mp := range ms {
				if f := d.FieldByName(meth.Payload, mp.Attr); f != nil && d.Underlying(f.Attr) == m.Bytes {
					if v := MergedValidation(d, f.Attr); v.MinLen != nil || v.MaxLen != nil {
						return true
					}
				}
			}
		}
		return false
	})
}

// hasGRPCMetadataAliasLength: request metadata mapped to an attribute whose
// type is a primitive alias user type carrying a length validation.
func hasGRPCMetadataAliasLength(d *m.Design) bool {
	return eachMethod(d, func(s *m.Service, meth *m.Method) bool {
		if meth.GRPC == nil || meth.Payload == nil {
			return false
		}
		for _, mp := range meth.GRPC.Metadata {
			if f := d.FieldByName(meth.Payload, mp.Attr); f != nil && f.Attr.Type.Kind == m.User {
				if v := MergedValidation(d, f.Attr); v.MinLen != nil || v.MaxLen != nil {
					return true
				}
			}
		}
		return false
	})
}

// hasGRPCMetadataAlias: request metadata mapped to an attribute whose type is
// (or is an array of) a primitive alias user type.
func hasGRPCMetadataAlias(d *m.Design) bool {
	return eachMethod(d, func(s *m.Service, meth *m.Method) bool {
		if meth.GRPC == nil || meth.Payload == nil {
			return false
		}
		for _, mp := range meth.GRPC.Metadata {
			if f := d.FieldByName(meth.Payload, mp.Attr); f != nil {
				if f.Attr.Type.Kind == m.User || f.Attr.Type.Kind == m.Array && f.Attr.Type.Elem.Type.Kind == m.User {
					return true
				}
			}
		}
		return false
	})
}

// hasGRPCResponseMetadata: a gRPC response maps a result attribute to header or trailer metadata.
func hasGRPCResponseMetadata(d *m.Design) bool {
	return eachMethod(d, func(s *m.Service, meth *m.Method) bool {
		return meth.GRPC != nil && len(meth.GRPC.Headers)+len(meth.GRPC.Trailers) > 0
	})
}

// isGRPCOnly: no service with an HTTP transport.
func isGRPCOnly(d *m.Design) bool {
	grpc := false
	for _, s := range d.Services {
		if s.HasHTTP {
			return false
		}
		grpc = grpc || s.HasGRPC
	}
	return grpc
}

// hasGRPCRecursiveType: a gRPC payload or result reaches a user type that refers to itself.
func hasGRPCRecursiveType(d *m.Design) bool {
	return eachMethod(d, func(s *m.Service, meth *m.Method) bool {
		if meth.GRPC == nil {
			return false
		}
		seen := map[string]bool{}
		var walk func(a *m.Attr) bool
		walk = func(a *m.Attr) bool {
			if a == nil || a.Type == nil {
				return false
			}
			switch a.Type.Kind {
			case m.User:
				if isRecursiveType(d, a.Type.User) {
					return true
				}
				if seen[a.Type.User] {
					return false
				}
				seen[a.Type.User] = true
				if ut := d.TypeByName(a.Type.User); ut != nil {
					return walk(ut.Attr)
				}
			case m.Array:
				return walk(a.Type.Elem)
			case m.Map:
				return walk(a.Type.Key) || walk(a.Type.Val)
			case m.Object, m.Union:
				for _, f := range a.Type.Fields {
					if walk(f.Attr) {
						return true
					}
				}
			}
			return false
		}
		return walk(meth.Payload) || walk(meth.Result)
	})
}

// hasNonStringResponseCookie: a result attribute that is not a String mapped to a response cookie.
func hasNonStringResponseCookie(d *m.Design) bool {
	return eachMethod(d, func(s *m.Service, meth *m.Method) bool {
		if meth.HTTP == nil || meth.Result == nil {
			return false
		}
		for _, r := range meth.HTTP.Responses {
			for _, c := range r.Cookies {
				if f := d.FieldByName(meth.Result, c.Attr); f != nil && d.Underlying(f.Attr) != m.String {
					return true
				}
			}
		}
		return false
	})
}

// hasResultTypeRequiredValidatedHeader: a method whose result is a result
// type (views) maps a required or defaulted attribute (non-pointer Go
// variable) that carries a validation to a response header or cookie.
func hasResultTypeRequiredValidatedHeader(d *m.Design) bool {
	return eachMethod(d, func(s *m.Service, meth *m.Method) bool {
		if meth.HTTP == nil || meth.Result == nil || meth.Result.Type.Kind != m.User {
			return false
		}
		ut := d.TypeByName(meth.Result.Type.User)
		if ut == nil || !ut.Result {
			return false
		}
		for _, r := range meth.HTTP.Responses {
			for _, mp := range append(append([]m.Mapping{}, r.Headers...), r.Cookies...) {
				if f := d.FieldByName(meth.Result, mp.Attr); f != nil && (f.Required || f.Attr.Default != nil) && !MergedValidation(d, f.Attr).Empty() {
					return true
				}
			}
		}
		return false
	})
}

// OpenQuirks returns the IDs of the quirks whose finding is listed as open:
// the generator steers away from exactly those.
func OpenQuirks() map[string]bool {
	out := map[string]bool{}
	for _, id := range []string{"C02-body-fields-client-sends-whole-payload", "C02-primitive-payload-path-param-named-p", "C02-client-path-slash-unescaped", "C03-response-header-array-not-split", "C03-recursive-result-header-attr-lost-in-nested", "C08-recursive-result-type-two-self-refs-loses-attribute", "C08-required-object-absent-client-panic", "C03-unions-with-the-same-name-share-alternative-types", "C04-union-alternative-validations-not-enforced"} {
		if kf.Open(id) {
			out[id] = true
		}
	}
	for _, q := range Quirks {
		if kf.Open(q.ID) {
			out[q.ID] = true
		}
	}
	return out
}

// MatchQuirks returns the open findings that explain a failure of design d
// with signature sig.
func MatchQuirks(d *m.Design, sig string) []string {
	var out []string
	if d == nil {
		return nil
	}
	for _, q := range Quirks {
		if !kf.Open(q.ID) || !q.Detect(d) {
			continue
		}
		ok := len(q.SigAny) == 0
		for _, frag := range q.SigAny {
			if strings.Contains(sig, frag) {
				ok = true
			}
		}
		if ok {
			out = append(out, q.ID)
		}
	}
	return out
}

func eachMethod(d *m.Design, f func(s *m.Service, meth *m.Method) bool) bool {
	for _, s := range d.Services {
		for _, meth := range s.Methods {
			if f(s, meth) {
				return true
			}
		}
	}
	return false
}

func hasNonStringCookie(d *m.Design) bool {
	return eachMethod(d, func(s *m.Service, meth *m.Method) bool {
		if meth.HTTP == nil || meth.Payload == nil {
			return false
		}
		for _, c := range meth.HTTP.Cookies {
			if f := d.FieldByName(meth.Payload, c.Attr); f != nil && f.Attr.Type.Kind != m.String {
				return true
			}
		}
		return false
	})
}

func hasPrimitivePayloadHeader(d *m.Design) bool {
	return eachMethod(d, func(s *m.Service, meth *m.Method) bool {
		if meth.HTTP == nil || meth.Payload == nil {
			return false
		}
		k := d.Underlying(meth.Payload)
		return k.IsPrimitive() && len(meth.HTTP.Headers) > 0
	})
}

// hasNestedInlineObject: an inline object attribute inside an inline object
// attribute (two levels below a payload, result or user type).
func hasNestedInlineObject(d *m.Design) bool {
	var walk func(a *m.Attr, level int) bool
	walk = func(a *m.Attr, level int) bool {
		if a == nil || a.Type == nil {
			return false
		}
		switch a.Type.Kind {
		case m.Object:
			if level >= 2 {
				return true
			}
			for _, f := range a.Type.Fields {
				if walk(f.Attr, level+1) {
					return true
				}
			}
		case m.Array:
			return walk(a.Type.Elem, level)
		case m.Map:
			return walk(a.Type.Val, level)
		}
		return false
	}
	for _, t := range d.Types {
		if walk(t.Attr, 0) {
			return true
		}
	}
	return eachMethod(d, func(s *m.Service, meth *m.Method) bool {
		return walk(meth.Payload, 0) || walk(meth.Result, 0)
	})
}

// inlineObjectHolds reports whether an inline object attribute (an object
// below the root, not through a user type) holds an attribute for which pred is true.
func inlineObjectHolds(a *m.Attr, level int, pred func(*m.Attr) bool) bool {
	if a == nil || a.Type == nil {
		return false
	}
	switch a.Type.Kind {
	case m.Object:
		for _, f := range a.Type.Fields {
			if level >= 1 && pred(f.Attr) {
				return true
			}
			if inlineObjectHolds(f.Attr, level+1, pred) {
				return true
			}
		}
	case m.Array:
		return inlineObjectHolds(a.Type.Elem, level, pred)
	case m.Map:
		return inlineObjectHolds(a.Type.Val, level, pred)
	}
	return false
}

func refsUser(a *m.Attr) bool {
	if a == nil || a.Type == nil {
		return false
	}
	switch a.Type.Kind {
	case m.User:
		return true
	case m.Array:
		return refsUser(a.Type.Elem)
	case m.Map:
		return refsUser(a.Type.Val) || refsUser(a.Type.Key)
	}
	return false
}

func hasUserTypeInInlineObject(d *m.Design) bool {
	for _, t := range d.Types {
		if inlineObjectHolds(t.Attr, 0, refsUser) {
			return true
		}
	}
	return eachMethod(d, func(s *m.Service, meth *m.Method) bool {
		return inlineObjectHolds(meth.Payload, 0, refsUser) || inlineObjectHolds(meth.Result, 0, refsUser)
	})
}

// BodyAttrOptionalNonPointer: request Body("x") naming an attribute that is
// not required and whose Go field is not a pointer (Bytes, or a primitive with a default).
func BodyAttrOptionalNonPointer(d *m.Design, payload *m.Attr, name string) bool {
	f := d.FieldByName(payload, name)
	if f == nil || f.Required {
		return false
	}
	k := d.Underlying(f.Attr)
	return k == m.Bytes || (k.IsPrimitive() && f.Attr.Default != nil)
}

func hasBodyAttrOptionalNonPointer(d *m.Design) bool {
	return eachMethod(d, func(s *m.Service, meth *m.Method) bool {
		h := meth.HTTP
		if h == nil || h.Body == nil || h.Body.Mode != "attr" || meth.Payload == nil {
			return false
		}
		return BodyAttrOptionalNonPointer(d, meth.Payload, h.Body.Attr)
	})
}

// BodyAttrs returns the names of the payload attributes carried in the request body.
func BodyAttrs(d *m.Design, meth *m.Method) []string {
	h := meth.HTTP
	if h == nil || meth.Payload == nil {
		return nil
	}
	if h.Body != nil {
		switch h.Body.Mode {
		case "attr":
			return []string{h.Body.Attr}
		case "fields":
			return h.Body.Fields
		case "empty":
			return nil
		}
	}
	mapped := map[string]bool{}
	for _, l := range [][]m.Mapping{h.Path, h.Query, h.Headers, h.Cookies} {
		for _, mp := range l {
			mapped[mp.Attr] = true
		}
	}
	for _, c := range meth.Creds {
		if c.Kind == "username" || c.Kind == "password" {
			mapped[c.Attr] = true // Basic credentials: Authorization header
		}
	}
	var out []string
	for _, f := range d.ObjectFields(meth.Payload) {
		if !mapped[f.Name] && f.Name != h.MapParams {
			out = append(out, f.Name)
		}
	}
	return out
}

// hasPathParamNamedP: an object payload with a path parameter attribute named "p".
func hasPathParamNamedP(d *m.Design) bool {
	return eachMethod(d, func(s *m.Service, meth *m.Method) bool {
		h := meth.HTTP
		if h == nil || meth.Payload == nil || d.ObjectFields(meth.Payload) == nil {
			return false
		}
		for _, p := range h.Path {
			if p.Attr == "p" {
				return true
			}
		}
		return false
	})
}

func hasBodyFieldsUserType(d *m.Design) bool {
	return eachMethod(d, func(s *m.Service, meth *m.Method) bool {
		h := meth.HTTP
		if h == nil || h.Body == nil || h.Body.Mode != "fields" || meth.Payload == nil {
			return false
		}
		for _, n := range h.Body.Fields {
			if f := d.FieldByName(meth.Payload, n); f != nil && refsUser(f.Attr) && d.Underlying(f.Attr) == m.Object {
				return true
			}
			if f := d.FieldByName(meth.Payload, n); f != nil && refsUser(f.Attr) {
				// arrays / maps of user types
				k := d.Underlying(f.Attr)
				if k == m.Array || k == m.Map {
					return true
				}
			}
		}
		return false
	})
}

func hasBodyFieldsInlineRequired(d *m.Design) bool {
	return eachMethod(d, func(s *m.Service, meth *m.Method) bool {
		h := meth.HTTP
		if h == nil || h.Body == nil || h.Body.Mode != "fields" || meth.Payload == nil {
			return false
		}
		for _, n := range h.Body.Fields {
			f := d.FieldByName(meth.Payload, n)
			if f == nil || f.Attr.Type.Kind != m.Object {
				continue
			}
			for _, sub := range f.Attr.Type.Fields {
				if sub.Required || sub.Attr.Default != nil {
					return true
				}
			}
		}
		return false
	})
}

func hasTwoSchemesSameType(d *m.Design) bool {
	for _, s := range d.Services {
		kinds := map[string]map[string]bool{}
		for _, meth := range s.Methods {
			for _, r := range EffectiveSecurity(d, s, meth) {
				for _, n := range r.Schemes {
					if sc := SchemeByName(d, n); sc != nil {
						if kinds[sc.Kind] == nil {
							kinds[sc.Kind] = map[string]bool{}
						}
						kinds[sc.Kind][n] = true
					}
				}
			}
		}
		for _, names := range kinds {
			if len(names) > 1 {
				return true
			}
		}
	}
	return false
}

func typeHasInlineObject(ut *m.UserType) bool {
	if ut == nil || ut.Attr == nil || ut.Attr.Type.Kind != m.Object {
		return false
	}
	for _, f := range ut.Attr.Type.Fields {
		if f.Attr.Type.Kind == m.Object {
			return true
		}
	}
	return false
}

// typeHasInlineObjectDeep: the type, or a user / result type nested in it
// (directly or as array element / map value), has an inline object attribute.
func typeHasInlineObjectDeep(d *m.Design, ut *m.UserType, seen map[string]bool) bool {
	if ut == nil || ut.Attr == nil || seen[ut.Name] {
		return false
	}
	seen[ut.Name] = true
	if typeHasInlineObject(ut) {
		return true
	}
	var refs func(a *m.Attr) bool
	refs = func(a *m.Attr) bool {
		if a == nil || a.Type == nil {
			return false
		}
		switch a.Type.Kind {
		case m.User:
			return typeHasInlineObjectDeep(d, d.TypeByName(a.Type.User), seen)
		case m.Array:
			return refs(a.Type.Elem)
		case m.Map:
			return refs(a.Type.Val)
		}
		return false
	}
	if ut.Attr.Type.Kind == m.Object {
		for _, f := range ut.Attr.Type.Fields {
			if refs(f.Attr) {
				return true
			}
		}
	}
	return false
}

func hasCollectionOfInlineObject(d *m.Design) bool {
	for _, t := range d.Types {
		if t.CollectionOf != "" && typeHasInlineObjectDeep(d, d.TypeByName(t.CollectionOf), map[string]bool{}) {
			return true
		}
	}
	return false
}

func hasRecursiveNestedView(d *m.Design) bool {
	for _, t := range d.Types {
		if !t.Result || t.Attr == nil {
			continue
		}
		for _, v := range t.Views {
			for _, vf := range v.Fields {
				if vf.View == "" {
					continue
				}
				if f := d.FieldByName(t.Attr, vf.Name); f != nil && f.Attr.Type.Kind == m.User && f.Attr.Type.User == t.Name {
					return true
				}
			}
		}
	}
	return false
}

func hasUnion(a *m.Attr) bool {
	if a == nil || a.Type == nil {
		return false
	}
	switch a.Type.Kind {
	case m.Union:
		return true
	case m.Array:
		return hasUnion(a.Type.Elem)
	case m.Map:
		return hasUnion(a.Type.Val)
	case m.Object:
		for _, f := range a.Type.Fields {
			if hasUnion(f.Attr) {
				return true
			}
		}
	}
	return false
}

func hasRecursiveTypeWithUnion(d *m.Design) bool {
	for _, t := range d.Types {
		if t.Attr != nil && refsType(t.Attr.Type, t.Name) && hasUnion(t.Attr) {
			return true
		}
	}
	return false
}

// nestedRequiredNameClash: a result type P has an attribute x whose type is a
// result type N, and N itself requires an attribute that is also named x. The
// view validation code of P decides whether P.x is required by asking N
// (open finding). With relax set the clash is removed by making N.x optional.
func nestedRequiredNameClash(d *m.Design, relax bool) bool {
	found := false
	for _, p := range d.Types {
		if !p.Result || p.CollectionOf != "" || p.Attr == nil || p.Attr.Type.Kind != m.Object {
			continue
		}
		for _, f := range p.Attr.Type.Fields {
			if f.Attr.Type.Kind != m.User {
				continue
			}
			n := d.TypeByName(f.Attr.Type.User)
			if n == nil || !n.Result || n.CollectionOf != "" || n.Attr == nil || n.Attr.Type.Kind != m.Object {
				continue
			}
			for _, nf := range n.Attr.Type.Fields {
				if nf.Name == f.Name && nf.Required {
					found = true
					if relax {
						nf.Required = false
					}
				}
			}
		}
	}
	return found
}

// hasObjectMapKey: some map has a key that is an object (a user type whose
// attribute is an object, or an inline object).
func hasObjectMapKey(d *m.Design) bool {
	found := false
	var walk func(a *m.Attr, depth int)
	isObj := func(a *m.Attr) bool {
		if a == nil {
			return false
		}
		if a.Type.Kind == m.Object {
			return true
		}
		if a.Type.Kind == m.User {
			if ut := d.TypeByName(a.Type.User); ut != nil && ut.Attr != nil && ut.Attr.Type.Kind == m.Object {
				return true
			}
		}
		return false
	}
	walk = func(a *m.Attr, depth int) {
		if a == nil || depth > 8 || found {
			return
		}
		switch a.Type.Kind {
		case m.Map:
			if isObj(a.Type.Key) {
				found = true
				return
			}
			walk(a.Type.Key, depth+1)
			walk(a.Type.Val, depth+1)
		case m.Array:
			walk(a.Type.Elem, depth+1)
		case m.Object, m.Union:
			for _, f := range a.Type.Fields {
				walk(f.Attr, depth+1)
			}
		}
	}
	for _, ut := range d.Types {
		walk(ut.Attr, 0)
	}
	for _, s := range d.Services {
		for _, meth := range s.Methods {
			walk(meth.Payload, 0)
			walk(meth.Result, 0)
			walk(meth.StreamingPayload, 0)
			for _, e := range meth.Errors {
				walk(e.Type, 0)
			}
		}
	}
	return found
}
