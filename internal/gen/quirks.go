package gen

import (
	"strings"

	"verif/internal/kf"
	m "verif/internal/model"
)

// Quirk ties a known finding to (a) a predicate over the design model that
// recognises the class of designs that trigger it and (b) a fragment of the
// failure signature, so that a different failure of a design that merely
// contains the feature is still reported.
type Quirk struct {
	ID     string
	Detect func(d *m.Design) bool
	// SigAny: the failure signature must contain one of these fragments ("" = any)
	SigAny []string
}

// Quirks lists the feature predicates of the C01 findings.
var Quirks = []Quirk{
	{ID: "C01-cookie-nonstring", Detect: hasNonStringCookie, SigAny: []string{"client/encode_decode"}},
	{ID: "C01-primitive-payload-header", Detect: hasPrimitivePayloadHeader, SigAny: []string{"client/encode_decode"}},
	{ID: "C01-nested-inline-object", Detect: hasNestedInlineObject, SigAny: []string{"/types", "struct{…}"}},
}

// OpenQuirks returns the IDs of the quirks whose finding is listed as open:
// the generator steers away from exactly those.
func OpenQuirks() map[string]bool {
	out := map[string]bool{}
	for _, q := range Quirks {
		if kf.Open(q.ID) {
			out[q.ID] = true
		}
	}
	return out
}

// MatchQuirks returns the open findings that explain a failure of design d
// with signature sig.
func MatchQuirks(d *m.Design, sig string) []string {
	var out []string
	if d == nil {
		return nil
	}
	for _, q := range Quirks {
		if !kf.Open(q.ID) || !q.Detect(d) {
			continue
		}
		ok := len(q.SigAny) == 0
		for _, frag := range q.SigAny {
			if strings.Contains(sig, frag) {
				ok = true
			}
		}
		if ok {
			out = append(out, q.ID)
		}
	}
	return out
}

func eachMethod(d *m.Design, f func(s *m.Service, meth *m.Method) bool) bool {
	for _, s := range d.Services {
		for _, meth := range s.Methods {
			if f(s, meth) {
				return true
			}
		}
	}
	return false
}

func hasNonStringCookie(d *m.Design) bool {
	return eachMethod(d, func(s *m.Service, meth *m.Method) bool {
		if meth.HTTP == nil || meth.Payload == nil {
			return false
		}
		for _, c := range meth.HTTP.Cookies {
			if f := d.FieldByName(meth.Payload, c.Attr); f != nil && d.Underlying(f.Attr) != m.String {
				return true
			}
		}
		return false
	})
}

func hasPrimitivePayloadHeader(d *m.Design) bool {
	return eachMethod(d, func(s *m.Service, meth *m.Method) bool {
		if meth.HTTP == nil || meth.Payload == nil {
			return false
		}
		k := d.Underlying(meth.Payload)
		return k.IsPrimitive() && len(meth.HTTP.Headers) > 0
	})
}

// hasNestedInlineObject: an inline object attribute inside an inline object
// attribute (two levels below a payload, result or user type).
func hasNestedInlineObject(d *m.Design) bool {
	var walk func(a *m.Attr, level int) bool
	walk = func(a *m.Attr, level int) bool {
		if a == nil || a.Type == nil {
			return false
		}
		switch a.Type.Kind {
		case m.Object:
			if level >= 2 {
				return true
			}
			for _, f := range a.Type.Fields {
				if walk(f.Attr, level+1) {
					return true
				}
			}
		case m.Array:
			return walk(a.Type.Elem, level)
		case m.Map:
			return walk(a.Type.Val, level)
		}
		return false
	}
	for _, t := range d.Types {
		if walk(t.Attr, 0) {
			return true
		}
	}
	return eachMethod(d, func(s *m.Service, meth *m.Method) bool {
		return walk(meth.Payload, 0) || walk(meth.Result, 0)
	})
}
