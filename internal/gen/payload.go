package gen

import (
	"pgregory.net/rapid"

	"verif/internal/kf"
	m "verif/internal/model"
	"verif/internal/value"
)

// WhereOf returns the transport location of each top-level payload attribute
// of a method: "path", "query", "header", "cookie" or "body".
func WhereOf(d *m.Design, meth *m.Method) map[string]string {
	out := map[string]string{}
	h := meth.HTTP
	if h == nil || meth.Payload == nil {
		return out
	}
	for _, f := range d.ObjectFields(meth.Payload) {
		out[f.Name] = "body"
	}
	for _, p := range h.Path {
		out[p.Attr] = "path"
	}
	for _, p := range h.Query {
		out[p.Attr] = "query"
	}
	for _, p := range h.Headers {
		out[p.Attr] = "header"
	}
	for _, p := range h.Cookies {
		out[p.Attr] = "cookie"
	}
	// MapParams("attr"): the map receives (and is sent as) the query string parameters
	if h.MapParams != "" && h.MapParams != "*" {
		out[h.MapParams] = "query"
	}
	// Basic credentials travel in the Authorization header
	for _, c := range meth.Creds {
		if c.Kind == "username" || c.Kind == "password" {
			out[c.Attr] = "auth"
		}
	}
	if h.Body != nil {
		switch h.Body.Mode {
		case "attr":
			out[h.Body.Attr] = "body"
		case "fields":
			for _, f := range h.Body.Fields {
				out[f] = "body"
			}
		}
	}
	return out
}

// RespWhereOf returns the location of each top-level result attribute in a response.
func RespWhereOf(d *m.Design, meth *m.Method, r *m.Response) map[string]string {
	out := map[string]string{}
	if meth.Result == nil {
		return out
	}
	for _, f := range d.ObjectFields(meth.Result) {
		out[f.Name] = "body"
	}
	if r == nil {
		return out
	}
	for _, p := range r.Headers {
		out[p.Attr] = "header"
	}
	for _, p := range r.Cookies {
		out[p.Attr] = "cookie"
	}
	return out
}

// LocFor returns the value-generation constraints of a request location,
// taking the open known findings into account.
func LocFor(where string) Loc {
	l := Loc{Where: where, MustSetDefaults: true}
	switch where {
	case "auth":
		l.Where = "header"
		l.NoEmpty = true
	case "query", "header", "cookie":
		l.NoEmpty = kf.Open("C02-empty-string-is-absent")
	case "path":
		l.NoSlash = kf.Open("C02-client-path-slash-unescaped")
	}
	return l
}

// PayloadGen generates valid payloads for a method: every attribute is drawn
// for the location it travels in.
func PayloadGen(d *m.Design, meth *m.Method) *rapid.Generator[value.V] {
	return rapid.Custom(func(t *rapid.T) value.V {
		_ = rapid.Bool().Draw(t, "pad") // a Custom generator must consume data
		if meth.Payload == nil {
			return value.Nil()
		}
		h := meth.HTTP
		fields := d.ObjectFields(meth.Payload)
		if fields == nil {
			// primitive, array or map payload: single location
			where := "body"
			if h != nil {
				switch {
				case len(h.Path) > 0:
					where = "path"
				case len(h.Query) > 0:
					where = "query"
				case len(h.Headers) > 0:
					where = "header"
				case len(h.Cookies) > 0:
					where = "cookie"
				case h.MapParams == "*":
					where = "query"
				}
			}
			loc := LocFor(where)
			if where != "body" {
				loc.NonEmptyArray = true
				loc.NonEmptyMap = true // (a query string without parameters cannot carry an empty map)
			}
			return genValue(t, d, meth.Payload, loc, 3, nil)
		}
		where := WhereOf(d, meth)
		res, _ := d.Resolve(meth.Payload)
		out := value.V{K: "object"}
		for _, f := range res.Type.Fields {
			w := where[f.Name]
			loc := LocFor(w)
			if w == "query" || w == "header" {
				loc.NonEmptyArray = true
				loc.NonEmptyMap = true
			}
			present := f.Required || f.Attr.Default != nil
			if !present && MinLenCollection(d, f.Attr) && kf.Open("C04-absent-optional-collection-minlength") {
				present = true // steered away from the open finding
			}
			if !present && h != nil && h.Body != nil && h.Body.Mode == "attr" && h.Body.Attr == f.Name {
				if d.Underlying(f.Attr) == m.Object && kf.Open("C02-body-attr-optional-unset-client-panic") {
					present = true
				}
				if d.Underlying(f.Attr).IsPrimitive() && kf.Open("C02-body-attr-optional-primitive-unset-arrives-zero") {
					present = true
				}
			}
			if !present {
				present = rapid.IntRange(0, 9).Draw(t, "present:"+f.Name) < 6
			}
			if !present {
				continue
			}
			if ck := credKind(meth, f.Name); ck != "" {
				out.O = append(out.O, value.Field{N: f.Name, V: value.Str(credValue(t, ck))})
				continue
			}
			out.O = append(out.O, value.Field{N: f.Name, V: genValue(t, d, f.Attr, loc, 3, nil)})
		}
		// open finding: Basic credentials are only sent when both are set
		if kf.Open("C06-basic-partial-credentials-dropped") {
			var user, pass string
			for _, c := range meth.Creds {
				switch c.Kind {
				case "username":
					user = c.Attr
				case "password":
					pass = c.Attr
				}
			}
			if user != "" && pass != "" {
				_, hu := out.Get(user)
				_, hp := out.Get(pass)
				if hu && !hp {
					out.O = append(out.O, value.Field{N: pass, V: value.Str(credValue(t, "password"))})
				}
				if hp && !hu {
					out.O = append(out.O, value.Field{N: user, V: value.Str(credValue(t, "username"))})
				}
			}
		}
		return out
	})
}

func credKind(meth *m.Method, attr string) string {
	for _, c := range meth.Creds {
		if c.Attr == attr {
			return c.Kind
		}
	}
	return ""
}

// credValue draws a credential string: a single token of printable ASCII
// (the HTTP Authorization syntax has no blanks inside credentials); user
// names have no ':' (Basic auth separates on the first one); bearer tokens
// sometimes carry the "Bearer " scheme prefix.
func credValue(t *rapid.T, kind string) string {
	alphabet := []string{"a", "Z", "0", "9", "-", "_", ".", "~", "+", "/", "=", "%", "%41", "!", "*", "'", "(", ")", "$", "&", "@", "?", "#"}
	n := rapid.IntRange(1, 12).Draw(t, "credlen")
	var b []byte
	for i := 0; i < n; i++ {
		b = append(b, rapid.SampledFrom(alphabet).Draw(t, "credtok")...)
	}
	s := string(b)
	switch kind {
	case "password":
		if rapid.IntRange(0, 3).Draw(t, "passcolon") == 0 {
			s += ":x:"
		}
	case "token", "accesstoken":
		if rapid.IntRange(0, 3).Draw(t, "bearerprefix") == 0 {
			return "Bearer " + s
		}
	}
	return s
}

// MinLenCollection reports whether the attribute is an array or map with MinLength >= 1.
func MinLenCollection(d *m.Design, a *m.Attr) bool {
	k := d.Underlying(a)
	if k != m.Array && k != m.Map {
		return false
	}
	v := MergedValidation(d, a)
	return v.MinLen != nil && *v.MinLen >= 1
}

// ResultGen generates a valid result for a method together with the
// response the design selects for it.
func ResultGen(d *m.Design, meth *m.Method) *rapid.Generator[value.V] {
	return rapid.Custom(func(t *rapid.T) value.V {
		_ = rapid.Bool().Draw(t, "pad")
		if meth.Result == nil {
			return value.Nil()
		}
		fields := d.ObjectFields(meth.Result)
		if fields == nil {
			return genValue(t, d, meth.Result, Loc{Where: "body", MustSetDefaults: true}, 3, nil)
		}
		// union of the header/cookie mappings of all responses (they share them in generated designs)
		where := map[string]string{}
		if meth.HTTP != nil {
			for _, r := range meth.HTTP.Responses {
				for k, v := range RespWhereOf(d, meth, r) {
					if v != "body" {
						where[k] = v
					}
				}
			}
		}
		res, _ := d.Resolve(meth.Result)
		out := value.V{K: "object"}
		for _, f := range res.Type.Fields {
			w := where[f.Name]
			if w == "" {
				w = "body"
			}
			loc := Loc{Where: w, MustSetDefaults: true}
			if w == "header" || w == "cookie" {
				loc.NoEmpty = kf.Open("C03-empty-string-is-absent")
				loc.NonEmptyArray = true
				loc.SingleElemArray = kf.Open("C03-response-header-array-not-split")
			}
			present := f.Required || f.Attr.Default != nil
			if !f.Required && f.Attr.Default != nil && w == "body" && !(ReachesResultType(d, meth.Result) && kf.Open("C03-result-type-unset-default-not-applied")) {
				// C03: "attributes with a declared default that the service left unset
				// are seen by the client with that default" - in a response body the
				// service sometimes leaves them unset (in Go: the zero value)
				present = rapid.IntRange(0, 9).Draw(t, "rdefpresent:"+f.Name) < 6
				loc.MustSetDefaults = false
			}
			if !present && MinLenCollection(d, f.Attr) && kf.Open("C04-absent-optional-collection-minlength") {
				present = true
			}
			if !present && meth.HTTP != nil && kf.Open("C03-response-body-attr-optional-unset-server-panic") {
				for _, r := range meth.HTTP.Responses {
					if r.Body != nil && r.Body.Mode == "attr" && r.Body.Attr == f.Name && d.Underlying(f.Attr) == m.Object {
						present = true
					}
				}
			}
			if !present && meth.HTTP != nil && kf.Open("C03-response-body-attr-optional-primitive-unset-arrives-zero") {
				for _, r := range meth.HTTP.Responses {
					if r.Body != nil && r.Body.Mode == "attr" && r.Body.Attr == f.Name && d.Underlying(f.Attr).IsPrimitive() {
						present = true
					}
				}
			}
			if !present {
				present = rapid.IntRange(0, 9).Draw(t, "rpresent:"+f.Name) < 6
			}
			// attributes used as response tags: often take one of the tag values
			var tagVals []string
			if meth.HTTP != nil {
				for _, r := range meth.HTTP.Responses {
					if r.TagName == f.Name {
						tagVals = append(tagVals, r.TagValue)
					}
				}
			}
			if len(tagVals) > 0 && rapid.IntRange(0, 2).Draw(t, "usetag:"+f.Name) != 0 {
				out.O = append(out.O, value.Field{N: f.Name, V: value.Str(rapid.SampledFrom(tagVals).Draw(t, "tagval"))})
				continue
			}
			if !present {
				continue
			}
			out.O = append(out.O, value.Field{N: f.Name, V: genValue(t, d, f.Attr, loc, 3, nil)})
		}
		// open finding: a tagged response dereferences unset header attributes
		if meth.HTTP != nil && kf.Open("C03-tagged-response-optional-header-nil-deref") {
			for _, r := range meth.HTTP.Responses {
				if r.TagName == "" {
					continue
				}
				if tv, ok := out.Get(r.TagName); !ok || tv.S != r.TagValue {
					continue
				}
				for _, hm := range r.Headers {
					if _, ok := out.Get(hm.Attr); ok {
						continue
					}
					if f := d.FieldByName(meth.Result, hm.Attr); f != nil {
						loc := Loc{Where: "header", MustSetDefaults: true, NonEmptyArray: true, NoEmpty: kf.Open("C03-empty-string-is-absent"), SingleElemArray: kf.Open("C03-response-header-array-not-split")}
						out.O = append(out.O, value.Field{N: f.Name, V: genValue(t, d, f.Attr, loc, 3, nil)})
					}
				}
				break
			}
		}
		return out
	})
}

// ReachesResultType reports whether the attribute's type is or contains
// (through user types, arrays, maps and objects) a result type.
func ReachesResultType(d *m.Design, a *m.Attr) bool {
	seen := map[string]bool{}
	var walk func(a *m.Attr) bool
	walk = func(a *m.Attr) bool {
		if a == nil || a.Type == nil {
			return false
		}
		switch a.Type.Kind {
		case m.User:
			ut := d.TypeByName(a.Type.User)
			if ut == nil || seen[ut.Name] {
				return false
			}
			if ut.Result {
				return true
			}
			seen[ut.Name] = true
			return walk(ut.Attr)
		case m.Array:
			return walk(a.Type.Elem)
		case m.Map:
			return walk(a.Type.Val)
		case m.Object, m.Union:
			for _, f := range a.Type.Fields {
				if walk(f.Attr) {
					return true
				}
			}
		}
		return false
	}
	return walk(a)
}
