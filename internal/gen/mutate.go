package gen

import (
	"fmt"
	"math"
	"strings"

	"pgregory.net/rapid"

	"verif/internal/kf"
	m "verif/internal/model"
	"verif/internal/value"
)

// Fault describes a single-point corruption of a valid value.
type Fault struct {
	Path string `json:"path"` // attribute path from the root: "a.b[0]"
	Rule string `json:"rule"` // the goa error name the design promises
	Top  string `json:"top"`  // top-level attribute the fault lives in
	Desc string `json:"desc"`
	// Depth of the faulty attribute below the root (0 = top-level attribute)
	Depth int `json:"depth"`
	// OneStep: the value sits exactly one step outside a bound
	OneStep bool `json:"one_step"`
}

type site struct {
	path  []string // field names / [i] / {key}
	attr  *m.Attr
	val   value.V
	loc   Loc
	depth int
	// for required removal
	parentObj bool
	field     *m.Field
}

// collectSites lists every attribute occurrence of a value together with its location.
func collectSites(d *m.Design, a *m.Attr, v value.V, loc Loc, path []string, depth int, out *[]site) {
	if a == nil || v.IsNil() {
		return
	}
	*out = append(*out, site{path: append([]string{}, path...), attr: a, val: v, loc: loc, depth: depth})
	res, _ := d.Resolve(a)
	switch res.Type.Kind {
	case m.Object:
		if v.K != "object" {
			return
		}
		for _, f := range res.Type.Fields {
			fv, ok := v.Get(f.Name)
			if !ok {
				continue
			}
			collectSites(d, f.Attr, fv, loc, append(path, f.Name), depth+1, out)
			(*out)[len(*out)-1].field = f
		}
	case m.Array:
		if v.K != "array" {
			return
		}
		el := loc
		el.InArray = true
		for i, e := range v.A {
			collectSites(d, res.Type.Elem, e, el, append(path, fmt.Sprintf("[%d]", i)), depth+1, out)
		}
	case m.Map:
		if v.K != "map" {
			return
		}
		for i := 0; i+1 < len(v.A); i += 2 {
			collectSites(d, res.Type.Val, v.A[i+1], loc, append(path, fmt.Sprintf("{%d}", i/2)), depth+1, out)
		}
	case m.Union:
		if v.K != "union" || len(v.A) != 1 {
			return
		}
		for _, f := range res.Type.Fields {
			if f.Name == v.S {
				// "|alt": the value of the chosen alternative
				collectSites(d, f.Attr, v.A[0], loc, append(path, "|"+f.Name), depth+1, out)
			}
		}
	}
}

// replaceAt returns a copy of v with the value at path replaced (or removed when nv is nil and the parent is an object).
func replaceAt(v value.V, path []string, nv value.V, remove bool) value.V {
	if len(path) == 0 {
		return nv
	}
	p := path[0]
	switch {
	case strings.HasPrefix(p, "["):
		var i int
		fmt.Sscanf(p, "[%d]", &i)
		out := value.V{K: "array", A: append([]value.V{}, v.A...)}
		out.A[i] = replaceAt(v.A[i], path[1:], nv, remove)
		return out
	case strings.HasPrefix(p, "|"):
		return value.V{K: "union", S: v.S, A: []value.V{replaceAt(v.A[0], path[1:], nv, remove)}}
	case strings.HasPrefix(p, "{"):
		var i int
		fmt.Sscanf(p, "{%d}", &i)
		out := value.V{K: "map", A: append([]value.V{}, v.A...)}
		out.A[2*i+1] = replaceAt(v.A[2*i+1], path[1:], nv, remove)
		return out
	default:
		if len(path) == 1 && remove {
			return v.Del(p)
		}
		cur, _ := v.Get(p)
		return v.Set(p, replaceAt(cur, path[1:], nv, remove))
	}
}

func pathString(path []string) string {
	var b strings.Builder
	for i, p := range path {
		if i > 0 && !strings.HasPrefix(p, "[") && !strings.HasPrefix(p, "{") && !strings.HasPrefix(p, "|") {
			b.WriteString(".")
		}
		b.WriteString(p)
	}
	return b.String()
}

// Mutate corrupts a valid value at one point so that exactly the named rule
// is broken there. topLoc gives the location of each top-level attribute (nil:
// everything in the body). ok is false when the value offers no site.
func Mutate(t *rapid.T, d *m.Design, root *m.Attr, valid value.V, topLoc func(name string) Loc) (value.V, Fault, bool) {
	var sites []site
	res, _ := d.Resolve(root)
	if res.Type.Kind == m.Object && valid.K == "object" {
		for _, f := range res.Type.Fields {
			fv, ok := valid.Get(f.Name)
			if !ok {
				continue
			}
			loc := Body
			if topLoc != nil {
				loc = topLoc(f.Name)
			}
			n := len(sites)
			collectSites(d, f.Attr, fv, loc, []string{f.Name}, 0, &sites)
			if len(sites) > n {
				sites[n].field = f
			}
		}
	} else {
		loc := Body
		if topLoc != nil {
			loc = topLoc("")
		}
		collectSites(d, root, valid, loc, nil, 0, &sites)
	}
	type cand struct {
		s    site
		nv   value.V
		rem  bool
		rule string
		desc string
		one  bool
	}
	var cands []cand
	for _, s := range sites {
		r, _ := d.Resolve(s.attr)
		k := r.Type.Kind
		v := MergedValidation(d, s.attr)
		add := func(nv value.V, rule, desc string, one bool) {
			// values that the location cannot carry, or that are indistinguishable from "unset", are not faults
			if nv.K == "string" && !s.loc.carries(nv.S) {
				return
			}
			if nv.K == "string" && s.loc.Where != "body" && (nv.S == "" || (s.loc.Where == "cookie" && !cookieSafe(nv.S)) || (s.loc.Where == "header" && (!isASCII(nv.S) || strings.Contains(nv.S, ","))) || (s.loc.NoSlash && strings.Contains(nv.S, "/"))) {
				return
			}
			if (nv.K == "array" || nv.K == "map" || nv.K == "bytes") && nv.Len() == 0 {
				return
			}
			if s.attr.Default != nil && isZeroV(nv) {
				return // an explicit zero of a defaulted attribute may be replaced by the default
			}
			cands = append(cands, cand{s, nv, false, rule, desc, one})
		}
		if len(v.Enum) > 0 {
			switch {
			case k == m.String:
				add(value.Str("not-in-enum"), "invalid_enum_value", "enum miss", false)
			case k.IsFloat():
				add(value.Float(999983.5), "invalid_enum_value", "enum miss", false)
			case k.IsUnsigned():
				add(value.Uint(999983), "invalid_enum_value", "enum miss", false)
			case k.IsInt():
				add(value.Int(999983), "invalid_enum_value", "enum miss", false)
			}
			continue // other keywords are not combined with enums by the generator
		}
		if v.Format != "" && k == m.String {
			for _, bad := range Formats[v.Format].Invalid {
				add(value.Str(bad), "invalid_format", "malformed "+v.Format, false)
			}
		}
		if v.Pattern != "" && k == m.String {
			for _, p := range Patterns {
				if p.Pattern == v.Pattern {
					for _, bad := range p.NonMatch {
						add(value.Str(bad), "invalid_pattern", "pattern miss", false)
					}
				}
			}
		}
		if k.IsNumeric() {
			mk := func(f float64) (value.V, bool) {
				lo, hi := kindRange(k)
				if f < lo || f > hi {
					return value.V{}, false
				}
				switch {
				case k.IsFloat():
					if k == m.Float32 {
						f = float64(float32(f))
					}
					return value.Float(f), true
				case k.IsUnsigned():
					if f < 0 {
						return value.V{}, false
					}
					return value.Uint(uint64(f)), true
				}
				return value.Int(int64(f)), true
			}
			step := 1.0
			if k.IsFloat() {
				step = 0.125
			}
			if v.Min != nil {
				if nv, ok := mk(math.Ceil(*v.Min/step)*step - step); ok {
					add(nv, "invalid_range", "one step below the minimum", true)
				}
			}
			if v.Max != nil {
				if nv, ok := mk(math.Floor(*v.Max/step)*step + step); ok {
					add(nv, "invalid_range", "one step above the maximum", true)
				}
			}
			if v.ExclMin != nil {
				if nv, ok := mk(*v.ExclMin); ok && (k.IsFloat() || *v.ExclMin == math.Trunc(*v.ExclMin)) {
					add(nv, "invalid_range", "exactly the exclusive minimum", true)
				}
			}
			if v.ExclMax != nil && !(v.ExclMin != nil && kf.Open("C04-exclusive-maximum-ignored-with-exclusive-minimum")) {
				if nv, ok := mk(*v.ExclMax); ok && (k.IsFloat() || *v.ExclMax == math.Trunc(*v.ExclMax)) {
					add(nv, "invalid_range", "exactly the exclusive maximum", true)
				}
			}
		}
		if v.MinLen != nil && *v.MinLen >= 2 {
			switch k {
			case m.String:
				if v.Pattern == "" && v.Format == "" {
					// multi-byte runes: the byte length still satisfies the bound, the rune length does not
					add(value.Str(strings.Repeat("é", *v.MinLen-1)), "invalid_length", "one rune short (multi-byte)", true)
				}
			case m.Array:
				if len(s.val.A) >= *v.MinLen-1 {
					add(value.V{K: "array", A: append([]value.V{}, s.val.A[:*v.MinLen-1]...)}, "invalid_length", "one element short", true)
				}
			case m.Map:
				if len(s.val.A)/2 >= *v.MinLen-1 {
					add(value.V{K: "map", A: append([]value.V{}, s.val.A[:2*(*v.MinLen-1)]...)}, "invalid_length", "one entry short", true)
				}
			case m.Bytes:
				add(value.Bytes([]byte(strings.Repeat("x", *v.MinLen-1))), "invalid_length", "one byte short", true)
			}
		}
		if v.MaxLen != nil {
			switch k {
			case m.String:
				if v.Pattern == "" && v.Format == "" {
					add(value.Str(strings.Repeat("x", *v.MaxLen+1)), "invalid_length", "one rune too long", true)
				}
			case m.Array:
				if len(s.val.A) > 0 {
					a := append([]value.V{}, s.val.A...)
					for len(a) <= *v.MaxLen {
						a = append(a, s.val.A[0])
					}
					add(value.V{K: "array", A: a}, "invalid_length", "one element too many", true)
				}
			case m.Bytes:
				add(value.Bytes([]byte(strings.Repeat("x", *v.MaxLen+1))), "invalid_length", "one byte too long", true)
			}
		}
		// required attribute removed: only expressible for nil-able Go fields
		if s.field != nil && s.field.Required && len(s.path) >= 1 {
			// (a nil slice or map is an empty one in Go: removing a required collection is not a fault)
			if k == m.Object {
				if !(s.loc.Where != "body" && s.depth == 0) {
					cands = append(cands, cand{s, value.Nil(), true, "missing_field", "required attribute removed", false})
				}
			}
		}
	}
	if len(cands) == 0 {
		return valid, Fault{}, false
	}
	c := cands[rapid.IntRange(0, len(cands)-1).Draw(t, "fault")]
	mut := replaceAt(valid, c.s.path, c.nv, c.rem)
	top := ""
	if len(c.s.path) > 0 {
		top = c.s.path[0]
	}
	return mut, Fault{Path: pathString(c.s.path), Rule: c.rule, Top: top, Desc: c.desc, Depth: c.s.depth, OneStep: c.one}, true
}

func isZeroV(v value.V) bool {
	switch v.K {
	case "bool":
		return !v.B
	case "int":
		return v.I == 0
	case "uint":
		return v.U == 0
	case "float":
		return v.F == 0
	case "string":
		return v.S == ""
	}
	return false
}
