package gen

import (
	"math"
	"sort"

	"pgregory.net/rapid"

	"verif/internal/kf"
	m "verif/internal/model"
	"verif/internal/value"
)

// GRPCProfile is the C10 profile: services with a gRPC transport only.
func GRPCProfile() Profile {
	return Profile{Name: "grpc", MaxServices: 2, MaxMethods: 3, MaxFields: 5, Runtime: true,
		Validations: true, Defaults: true, UserTypes: true, Aliases: true, Recursive: true, Maps: true, Bytes: true, GRPC: true, Unions: true, Streaming: true}
}

// GRPCDesign generates designs whose services are served over gRPC: payloads
// and results over primitives, arrays, maps, nested messages (user types),
// primitive aliases, OneOf unions (when the profile allows), with request
// metadata and response header/trailer mappings, every attribute of every
// message carrying the field number chosen here.
func GRPCDesign(p Profile) *rapid.Generator[*m.Design] {
	return rapid.Custom(func(t *rapid.T) *m.Design {
		g := &G{t: t, p: p, d: &m.Design{}, used: map[string]bool{}, features: map[string]bool{}}
		g.grpcDesign()
		var fs []string
		for f := range g.features {
			fs = append(fs, f)
		}
		sort.Strings(fs)
		g.d.Features = fs
		// spelling variants of the same design (see model.Design.Style); drawn
		// last so that the design itself does not depend on it
		g.d.Style = rapid.Uint64().Draw(t, "style")
		return g.d
	})
}

func (g *G) grpcDesign() {
	t := g.t
	d := g.d
	d.API.Name = rapid.SampledFrom([]string{"calc", "store", "cellar", "api"}).Draw(t, "apiname")
	d.API.Title = "Generated " + d.API.Name
	d.API.Server = rapid.Bool().Draw(t, "server")
	if g.p.Recursive && g.avoid("C01-gen-hangs-grpc-recursive-type") {
		g.p.Recursive = false
	}
	// no inline objects below messages: nested messages are user types (an
	// inline object has no name of its own in the protocol buffer file)
	g.inlineLevel = 0
	n := rapid.IntRange(0, 4).Draw(t, "ntypes")
	for i := 0; i < n; i++ {
		g.userType()
	}
	ns := rapid.IntRange(1, g.p.MaxServices).Draw(t, "nservices")
	scope := map[string]bool{}
	for i := 0; i < ns; i++ {
		s := &m.Service{Name: g.pickName([]string{"calc", "storage", "orders", "users", "admin"}, scope, "svcname"), HasGRPC: true}
		nm := rapid.IntRange(1, g.p.MaxMethods).Draw(t, "nmethods")
		mscope := map[string]bool{}
		for j := 0; j < nm; j++ {
			g.grpcMethod(s, mscope)
		}
		d.Services = append(d.Services, s)
	}
	for _, ut := range d.Types {
		flattenInline(ut.Attr)
	}
	if g.avoid("C01-grpc-only-design-example-main") {
		// the example generator needs at least one HTTP service
		d.Services = append(d.Services, &m.Service{Name: "health", HasHTTP: true, Methods: []*m.Method{{Name: "ping", HTTP: &m.HTTPEndpoint{Routes: []m.Route{{Verb: "GET", Path: "/ping"}}}}}})
	}
	if g.avoid("C10-nested-collection-wrappers-share-one-validator") {
		stripNestedCollectionValidations(d)
	}
	assignTags(t, d)
}

// stripNestedCollectionValidations removes the validations of collections
// nested in collections (ArrayOf(MapOf(...)), MapOf(String, ArrayOf(...)) ...)
// and of their keys and elements. goa wraps such an inner collection in a
// protocol buffer message named after its shape (MapOfStringSint32) and
// generates ONE validator per wrapper name: two attributes of the same shape
// with different validations get each other's rules (open finding).
func stripNestedCollectionValidations(d *m.Design) {
	seen := map[*m.Attr]bool{}
	var walk func(a *m.Attr, inColl bool)
	clear := func(a *m.Attr) {
		if a != nil {
			a.V = nil
		}
	}
	walk = func(a *m.Attr, inColl bool) {
		if a == nil || a.Type == nil || seen[a] {
			return
		}
		seen[a] = true
		switch a.Type.Kind {
		case m.Array:
			if inColl {
				clear(a)
				clear(a.Type.Elem)
			}
			walk(a.Type.Elem, true)
		case m.Map:
			if inColl {
				clear(a)
				clear(a.Type.Key)
				clear(a.Type.Val)
			}
			walk(a.Type.Key, true)
			walk(a.Type.Val, true)
		case m.Object, m.Union:
			for _, f := range a.Type.Fields {
				walk(f.Attr, false)
			}
		}
	}
	for _, ut := range d.Types {
		walk(ut.Attr, false)
	}
	for _, s := range d.Services {
		for _, meth := range s.Methods {
			walk(meth.Payload, false)
			walk(meth.Result, false)
			walk(meth.StreamingPayload, false)
		}
	}
}

// message draws a payload or result: nil, primitive, array, map, inline
// object or a reference to an object user type.
func (g *G) message(label string) *m.Attr {
	t := g.t
	k := rapid.IntRange(0, 11).Draw(t, label+"kind")
	switch {
	case k == 0:
		g.feat("no-" + label)
		return nil
	case k == 1:
		a := m.Prim(rapid.SampledFrom([]m.Kind{m.String, m.Int, m.Int32, m.Int64, m.UInt, m.UInt32, m.UInt64, m.Float32, m.Float64, m.Boolean, m.Bytes}).Draw(t, label+"prim"))
		if rapid.Bool().Draw(t, label+"primval") {
			a.V = g.validation(a, 0)
		}
		g.feat("primitive-" + label)
		return a
	case k == 2:
		el := m.Prim(rapid.SampledFrom([]m.Kind{m.String, m.Int, m.Float64, m.Boolean, m.UInt32}).Draw(t, label+"elem"))
		g.feat("array-" + label)
		return &m.Attr{Type: &m.Type{Kind: m.Array, Elem: el}}
	case k == 3:
		g.feat("map-" + label)
		return &m.Attr{Type: &m.Type{Kind: m.Map, Key: m.Prim(m.String), Val: m.Prim(rapid.SampledFrom([]m.Kind{m.String, m.Int, m.Float64, m.Boolean}).Draw(t, label+"mapval"))}}
	case k <= 6 && len(g.objectTypes()) > 0:
		g.feat("user-type-" + label)
		return m.UserRef(rapid.SampledFrom(g.objectTypes()).Draw(t, label+"type"))
	}
	obj := g.object(2, "")
	a := &m.Attr{Type: obj}
	flattenInline(a)
	return a
}

// flattenInline replaces inline objects nested in a message by primitives.
func flattenInline(a *m.Attr) {
	if a == nil || a.Type == nil {
		return
	}
	var fix func(x *m.Attr, top bool)
	fix = func(x *m.Attr, top bool) {
		if x == nil || x.Type == nil {
			return
		}
		switch x.Type.Kind {
		case m.Object:
			if !top {
				x.Type = &m.Type{Kind: m.String}
				x.V, x.Default = nil, nil
				return
			}
			for _, f := range x.Type.Fields {
				fix(f.Attr, false)
			}
		case m.Array:
			fix(x.Type.Elem, false)
		case m.Map:
			fix(x.Type.Key, false)
			fix(x.Type.Val, false)
		case m.Union:
			for _, f := range x.Type.Fields {
				fix(f.Attr, false)
			}
		}
	}
	fix(a, true)
}

func (g *G) grpcMethod(s *m.Service, scope map[string]bool) {
	t := g.t
	meth := &m.Method{Name: g.pickName([]string{"add", "list", "show", "update", "remove", "rate"}, scope, "methname"), GRPC: &m.GRPCEndpoint{}}
	meth.Payload = g.message("payload")
	meth.Result = g.message("result")
	// streaming kinds: the result of a server-streaming or bidirectional method is
	// the streamed message; the request stream of a client-streaming or
	// bidirectional method carries the streaming payload, so the payload (when
	// there is one) travels in the request metadata only
	if g.p.Streaming {
		switch rapid.IntRange(0, 5).Draw(t, "grpcstream") {
		case 0:
			if meth.Result != nil {
				meth.Streaming = "result"
			}
		case 1, 2:
			if sp := g.message("spayload"); sp != nil {
				meth.StreamingPayload = sp
				meth.Streaming = "payload"
				if meth.Result != nil && rapid.Bool().Draw(t, "bidi") {
					meth.Streaming = "bidirectional"
				}
				meth.Payload = nil
				if rapid.Bool().Draw(t, "mdpayload") {
					a := m.Prim(m.String)
					meth.Payload = &m.Attr{Type: &m.Type{Kind: m.Object, Fields: []*m.Field{{Name: "session", Attr: a, Required: rapid.Bool().Draw(t, "mdreq")}}}}
				}
			}
		}
		if meth.Streaming != "" {
			g.feat("grpc-streaming-" + meth.Streaming)
		}
	}
	// request metadata: top-level primitive attributes (or arrays of primitives) of an object payload
	pick := func(a *m.Attr, label string, max int) []m.Mapping {
		fields := g.d.ObjectFields(a)
		var out []m.Mapping
		for _, f := range fields {
			if len(out) >= max {
				break
			}
			k := g.d.Underlying(f.Attr)
			if label != "md" && g.avoid("C01-grpc-response-metadata") {
				continue
			}
			if label == "md" && (f.Attr.Type.Kind == m.User || f.Attr.Type.Kind == m.Array && f.Attr.Type.Elem.Type.Kind == m.User) && g.avoid("C01-grpc-metadata-alias-type") {
				continue
			}
			ok := k.IsPrimitive() && k != m.Any && k != m.Bytes
			if k == m.Array {
				res, _ := g.d.Resolve(f.Attr)
				ek := g.d.Underlying(res.Type.Elem)
				ok = ek.IsPrimitive() && ek != m.Any && ek != m.Bytes
			}
			if ok && rapid.IntRange(0, 3).Draw(t, label+":"+f.Name) == 0 {
				out = append(out, m.Mapping{Attr: f.Name})
			}
		}
		return out
	}
	if meth.Payload != nil {
		meth.GRPC.Metadata = pick(meth.Payload, "md", 2)
		if meth.StreamingPayload != nil {
			meth.GRPC.Metadata = []m.Mapping{{Attr: "session"}}
		}
		if len(meth.GRPC.Metadata) > 0 {
			g.feat("request-metadata")
		}
	}
	if meth.Result != nil {
		hs := pick(meth.Result, "hdr", 2)
		used := map[string]bool{}
		for _, h := range hs {
			used[h.Attr] = true
		}
		var ts []m.Mapping
		for _, tr := range pick(meth.Result, "trl", 1) {
			if !used[tr.Attr] {
				ts = append(ts, tr)
			}
		}
		meth.GRPC.Headers, meth.GRPC.Trailers = hs, ts
		if len(hs) > 0 {
			g.feat("response-header-metadata")
		}
		if len(ts) > 0 {
			g.feat("response-trailer-metadata")
		}
	}
	// explicit Message lists (a syntactic variant: the DSL adds every other
	// attribute that is not carried in metadata to the message anyway)
	explicit := func(a *m.Attr, skip []m.Mapping, label string) []string {
		if a == nil || rapid.IntRange(0, 2).Draw(t, label+"explicit") != 0 {
			return nil
		}
		in := map[string]bool{}
		for _, mp := range skip {
			in[mp.Attr] = true
		}
		var out []string
		for _, f := range g.d.ObjectFields(a) {
			if !in[f.Name] && rapid.Bool().Draw(t, label+"msg:"+f.Name) {
				out = append(out, f.Name)
			}
		}
		return out
	}
	if meth.Streaming != "" {
		s.Methods = append(s.Methods, meth)
		return
	}
	if meth.GRPC.Message = explicit(meth.Payload, meth.GRPC.Metadata, "req"); len(meth.GRPC.Message) > 0 {
		g.feat("explicit-request-message")
	}
	if meth.GRPC.RespMessage = explicit(meth.Result, append(append([]m.Mapping{}, meth.GRPC.Headers...), meth.GRPC.Trailers...), "resp"); len(meth.GRPC.RespMessage) > 0 {
		g.feat("explicit-response-message")
	}
	s.Methods = append(s.Methods, meth)
}

// assignTags gives every attribute of every object (and every alternative of
// every union) reachable in the design a distinct field number: a shuffled,
// sometimes sparse numbering rather than 1..n in declaration order.
func assignTags(t *rapid.T, d *m.Design) {
	seen := map[*m.Type]bool{}
	var walk func(a *m.Attr)
	walk = func(a *m.Attr) {
		if a == nil || a.Type == nil || seen[a.Type] {
			return
		}
		seen[a.Type] = true
		switch a.Type.Kind {
		case m.Object, m.Union:
			n := len(a.Type.Fields)
			nums := make([]int, n)
			for i := range nums {
				nums[i] = i + 1
			}
			if n > 1 && rapid.Bool().Draw(t, "shuffletags") {
				nums = rapid.Permutation(nums).Draw(t, "tagorder")
			}
			if rapid.IntRange(0, 3).Draw(t, "sparsetags") == 0 {
				for i := range nums {
					nums[i] = nums[i]*rapid.IntRange(2, 7).Draw(t, "tagstride") + rapid.SampledFrom([]int{0, 9, 100, 2047}).Draw(t, "tagbase")
				}
				// keep them distinct
				used := map[int]bool{}
				for i := range nums {
					for used[nums[i]] || (nums[i] >= 19000 && nums[i] <= 19999) {
						nums[i]++
					}
					used[nums[i]] = true
				}
			}
			for i, f := range a.Type.Fields {
				f.Tag = nums[i]
				walk(f.Attr)
			}
			// the alternatives of a oneof share the name space of the enclosing
			// message too (goa does not check either: open finding
			// C10-oneof-alternative-collides-with-message-field)
			if a.Type.Kind == m.Object {
				names := map[string]bool{}
				for _, f := range a.Type.Fields {
					names[f.Name] = true
				}
				for _, f := range a.Type.Fields {
					if f.Attr != nil && f.Attr.Type != nil && f.Attr.Type.Kind == m.Union {
						for _, alt := range f.Attr.Type.Fields {
							for names[alt.Name] {
								alt.Name = f.Name + "_" + alt.Name
							}
							names[alt.Name] = true
						}
					}
				}
			}
			// the alternatives of a oneof share the numbering space of the
			// enclosing message: renumber them after the message's own fields
			if a.Type.Kind == m.Object {
				next := 0
				for _, f := range a.Type.Fields {
					if f.Tag > next {
						next = f.Tag
					}
				}
				for _, f := range a.Type.Fields {
					if f.Attr != nil && f.Attr.Type != nil && f.Attr.Type.Kind == m.Union {
						for _, alt := range f.Attr.Type.Fields {
							next++
							for next >= 19000 && next <= 19999 {
								next++
							}
							alt.Tag = next
						}
					}
				}
			}
		case m.Array:
			walk(a.Type.Elem)
		case m.Map:
			walk(a.Type.Key)
			walk(a.Type.Val)
		}
	}
	for _, ut := range d.Types {
		walk(ut.Attr)
	}
	for _, s := range d.Services {
		for _, meth := range s.Methods {
			walk(meth.Payload)
			walk(meth.Result)
			walk(meth.StreamingPayload)
		}
	}
}

// GRPCPayloadGen draws a valid payload of a gRPC method: metadata attributes
// get values an HTTP/2 header can carry.
func GRPCPayloadGen(d *m.Design, meth *m.Method) *rapid.Generator[value.V] {
	return grpcValueGen(d, meth.Payload, func() []m.Mapping {
		if meth.GRPC == nil {
			return nil
		}
		return meth.GRPC.Metadata
	}())
}

// GRPCResultGen draws a valid result of a gRPC method.
func GRPCResultGen(d *m.Design, meth *m.Method) *rapid.Generator[value.V] {
	var md []m.Mapping
	if meth.GRPC != nil {
		md = append(append(md, meth.GRPC.Headers...), meth.GRPC.Trailers...)
	}
	return grpcValueGen(d, meth.Result, md)
}

// GRPCValueGen draws a valid value of an attribute carried in a gRPC message
// (streamed payloads and results).
func GRPCValueGen(d *m.Design, a *m.Attr) *rapid.Generator[value.V] { return grpcValueGen(d, a, nil) }

func grpcValueGen(d *m.Design, a *m.Attr, metadata []m.Mapping) *rapid.Generator[value.V] {
	return rapid.Custom(func(t *rapid.T) value.V {
		_ = rapid.Bool().Draw(t, "pad")
		if a == nil {
			return value.Nil()
		}
		v := genValue(t, d, a, Loc{Where: "body", MustSetDefaults: true, NonEmptyArray: kf.Open("C10-empty-required-collection-reported-missing"), NonEmptyMap: kf.Open("C10-empty-required-collection-reported-missing")}, 3, nil)
		if kf.Open("C10-int-and-uint-carried-as-32-bit") {
			v = clamp32(d, a, v, 0)
		}
		for _, mp := range metadata {
			f := d.FieldByName(a, mp.Attr)
			if f == nil {
				continue
			}
			if _, set := v.Get(mp.Attr); !set && !f.Required {
				continue
			}
			mv := printableASCII(genValue(t, d, f.Attr, Loc{Where: "header", NoEmpty: true, NonEmptyArray: true, MustSetDefaults: true, PrintableASCII: true}, 2, nil))
			if kf.Open("C10-int-and-uint-carried-as-32-bit") {
				mv = clamp32(d, f.Attr, mv, 0)
			}
			v = v.Set(mp.Attr, mv)
		}
		return v
	})
}

// clamp32 brings Int and UInt values (Go int/uint, 64 bits here) into the
// 32-bit range: goa maps them to sint32/uint32 in protocol buffers.
func clamp32(d *m.Design, a *m.Attr, v value.V, depth int) value.V {
	if a == nil || a.Type == nil || depth > 12 {
		return v
	}
	res, _ := d.Resolve(a)
	switch res.Type.Kind {
	case m.Int:
		if v.K == "int" {
			if v.I > math.MaxInt32 {
				v.I = math.MaxInt32
			}
			if v.I < math.MinInt32 {
				v.I = math.MinInt32
			}
		}
	case m.UInt:
		if v.K == "uint" && v.U > math.MaxUint32 {
			v.U = math.MaxUint32
		}
		if v.K == "int" && v.I > math.MaxUint32 {
			v.I = math.MaxUint32
		}
	case m.Array:
		if v.K == "array" {
			out := make([]value.V, len(v.A))
			for i, e := range v.A {
				out[i] = clamp32(d, res.Type.Elem, e, depth+1)
			}
			v.A = out
		}
	case m.Map:
		if v.K == "map" {
			out := make([]value.V, len(v.A))
			for i, e := range v.A {
				if i%2 == 0 {
					out[i] = clamp32(d, res.Type.Key, e, depth+1)
				} else {
					out[i] = clamp32(d, res.Type.Val, e, depth+1)
				}
			}
			v.A = out
		}
	case m.Union:
		if v.K == "union" && len(v.A) == 1 {
			for _, f := range res.Type.Fields {
				if f.Name == v.S {
					v.A = []value.V{clamp32(d, f.Attr, v.A[0], depth+1)}
				}
			}
		}
	case m.Object:
		if v.K == "object" {
			out := make([]value.Field, len(v.O))
			for i, f := range v.O {
				out[i] = f
				for _, df := range res.Type.Fields {
					if df.Name == f.N {
						out[i].V = clamp32(d, df.Attr, f.V, depth+1)
					}
				}
			}
			v.O = out
		}
	}
	return v
}

// printableASCII makes string values fit for gRPC metadata (HTTP/2 header
// values: printable ASCII): other characters are replaced by 'x'.
func printableASCII(v value.V) value.V {
	switch v.K {
	case "string":
		b := []rune(v.S)
		for i, r := range b {
			if r < 0x20 || r > 0x7e {
				b[i] = 'x'
			}
		}
		v.S = string(b)
	case "array":
		out := make([]value.V, len(v.A))
		for i, e := range v.A {
			out[i] = printableASCII(e)
		}
		v.A = out
	}
	return v
}
