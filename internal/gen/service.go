package gen

import (
	"fmt"
	"regexp"
	"strings"

	"pgregory.net/rapid"

	m "verif/internal/model"
)

var serviceNames = []string{"calc", "storage", "users", "orders", "admin", "sommelier", "fleetUUIDs"}
var hostileServiceNames = []string{"Service", "client", "http", "goa", "type", "foo_bar", "api v2", "Endpoints"}
var methodNames = []string{"add", "list", "show", "create", "update", "remove", "get_item", "rate", "login", "multi_op", "listIDs"}
var hostileMethodNames = []string{"Mount", "New", "Use", "Service", "type", "func", "foo_bar", "fooBar", "NewClient", "error", "Error", "MethodNames", "string"}

func (g *G) service(scope map[string]bool) {
	t := g.t
	s := &m.Service{}
	pool := serviceNames
	if g.p.HostileNames && rapid.IntRange(0, 4).Draw(t, "hostilesvc") == 0 {
		pool = hostileServiceNames
		g.feat("hostile-service-name")
	}
	s.Name = g.pickName(pool, scope, "svcname")
	s.HasHTTP = true
	if g.p.BasePaths && rapid.IntRange(0, 2).Draw(t, "svcbase") == 0 {
		s.BasePath = "/" + norm(s.Name)
		g.feat("service-base-path")
		if rapid.IntRange(0, 3).Draw(t, "morebase") == 0 {
			// a second base path of another length: everything is mounted under both
			s.MoreBasePaths = []string{"/" + norm(s.Name) + rapid.SampledFrom([]string{"-v2", "/beta", "x"}).Draw(t, "morebasepath")}
			g.feat("several-service-base-paths")
		}
	}
	if g.p.Errors && rapid.IntRange(0, 1).Draw(t, "svcerr") == 0 {
		e := &m.ErrorDef{Name: "svc_failure", Temporary: rapid.Bool().Draw(t, "svcerrtemp")}
		er := &m.ErrorResponse{Name: e.Name, Status: rapid.SampledFrom([]int{409, 429, 502}).Draw(t, "svcerrstatus"), Level: "service"}
		if g.p.CustomErrors && rapid.IntRange(0, 2).Draw(t, "svcerrcustom") == 0 && !g.avoid("C07-openapi2-response-header-go-type-names") {
			// a custom error type whose attribute travels in a renamed header of the
			// inherited (service level) response
			e.Temporary = false
			e.Type = m.UserRef(g.customErrorType())
			er.Headers = []m.Mapping{{Attr: "code", Wire: "X-Svc-Err-Code"}}
			g.feat("service-level-error-response-header")
		}
		s.Errors = append(s.Errors, e)
		s.ErrorResp = append(s.ErrorResp, er)
		g.feat("service-level-error")
	}
	if g.p.Security && len(g.d.Schemes) > 0 && rapid.IntRange(0, 2).Draw(t, "svcsec") == 0 {
		s.Security = g.requirements()
		g.feat("service-level-security")
	}
	apiErrInService := false
	if len(g.d.API.Errors) > 0 && rapid.Bool().Draw(t, "reuseapierr") {
		// refer to the error defined at the API level: the HTTP mapping is inherited
		s.Errors = append(s.Errors, &m.ErrorDef{Name: g.d.API.Errors[0].Name})
		apiErrInService = true
		g.feat("api-error-reused-by-service")
	}
	g.apiErrInService = apiErrInService
	nm := rapid.IntRange(1, g.p.MaxMethods).Draw(t, "nmethods")
	mscope := map[string]bool{}
	for i := 0; i < nm; i++ {
		g.method(s, mscope)
	}
	if g.p.Files && rapid.IntRange(0, 3).Draw(t, "files") == 0 {
		s.Files = append(s.Files, m.FileServer{Path: "/static/{*path}", Filename: "public"})
		if rapid.Bool().Draw(t, "file2") {
			s.Files = append(s.Files, m.FileServer{Path: "/openapi.json", Filename: "gen/http/openapi.json"})
		}
		g.feat("file-server")
	}
	g.d.Services = append(g.d.Services, s)
}

// mappable says which locations can carry an attribute of this type.
func (g *G) mappable(a *m.Attr) (path, query, header, cookie bool) {
	res, _ := g.d.Resolve(a)
	k := res.Type.Kind
	isPrim := k.IsPrimitive() && k != m.Any
	if g.p.Runtime && k == m.Bytes {
		// raw bytes in URLs and headers are limited to what the location carries; keep them in bodies
		isPrim = false
	}
	primArray := false
	if k == m.Array {
		er, _ := g.d.Resolve(res.Type.Elem)
		ek := er.Type.Kind
		primArray = ek.IsPrimitive() && ek != m.Any && !(g.p.Runtime && ek == m.Bytes)
		// a header/param array whose elements are a named alias does not compile (open finding C01-header-array-alias)
		if res.Type.Elem.Type.Kind == m.User {
			primArray = false
		}
	}
	if isPrim && k == m.Bytes {
		if v := MergedValidation(g.d, a); (v.MinLen != nil || v.MaxLen != nil) && g.avoid("C01-bytes-param-with-length-validation") {
			isPrim = false
		}
	}
	path = isPrim && k != m.Bytes
	query = isPrim || primArray
	header = isPrim || primArray
	cookie = isPrim && g.p.Cookies
	if cookie && a.Type.Kind != m.String && g.avoid("C01-cookie-nonstring") {
		cookie = false
	}
	// cookie values are limited to cookie-octets by HTTP (net/http drops other bytes)
	if f := MergedValidation(g.d, a).Format; f != "" {
		for _, v := range Formats[f].Valid {
			if !cookieSafe(v) {
				cookie = false
			}
			if path && strings.Contains(v, "/") && g.avoid("C02-client-path-slash-unescaped") {
				path = false
			}
		}
	}
	if pt := MergedValidation(g.d, a).Pattern; pt != "" && path {
		for _, pi := range Patterns {
			if pi.Pattern == pt {
				ok := false
				for _, v := range pi.Match {
					if !strings.Contains(v, "/") && v != "" {
						ok = true
					}
				}
				if !ok {
					path = false
				}
			}
		}
	}
	for _, e := range MergedValidation(g.d, a).Enum {
		if e.K == "string" && !cookieSafe(e.S) {
			cookie = false
		}
		if e.K == "string" && path && strings.Contains(e.S, "/") && g.avoid("C02-client-path-slash-unescaped") {
			path = false
		}
	}
	return
}

func (g *G) method(s *m.Service, scope map[string]bool) {
	t := g.t
	meth := &m.Method{}
	pool := methodNames
	if g.p.HostileNames && rapid.IntRange(0, 4).Draw(t, "hostilemeth") == 0 {
		pool = hostileMethodNames
		g.feat("hostile-method-name")
	}
	meth.Name = g.pickName(pool, scope, "methname")
	h := &m.HTTPEndpoint{}
	meth.HTTP = h

	// verb
	bodyVerbs := []string{"POST", "PUT", "PATCH", "POST"}
	noBodyVerbs := []string{"GET", "DELETE", "GET"}
	if g.p.AllVerbs {
		noBodyVerbs = append(noBodyVerbs, "OPTIONS", "TRACE") // (HEAD forbids response bodies, including error bodies)
	}
	hasBodyVerb := true
	verb := rapid.SampledFrom(bodyVerbs).Draw(t, "verb")
	streaming := ""
	// (rapid favours small integers: the draw is mixed before it is compared with the share)
	if g.p.Streaming && g.p.Runtime && (rapid.IntRange(0, 9999).Draw(t, "streams")*7919+37)%100 < g.p.streamPercent() {
		// a streaming endpoint: websocket upgrade of a GET request, the payload travels in path, query and headers
		streaming = rapid.SampledFrom([]string{"result", "payload", "bidirectional", "bidirectional"}).Draw(t, "streamkind")
		verb, hasBodyVerb = "GET", false
		g.feat("streaming-" + streaming)
	} else if g.p.NoBodyVerbs && rapid.IntRange(0, 2).Draw(t, "nobody") == 0 {
		verb = rapid.SampledFrom(noBodyVerbs).Draw(t, "nbverb")
		hasBodyVerb = false
		g.feat("no-body-verb")
	}

	// security
	if g.p.Security && len(g.d.Schemes) > 0 {
		switch rapid.IntRange(0, 5).Draw(t, "methsec") {
		case 0:
			meth.NoSecurity = true
			g.feat("no-security")
		case 1, 2:
			meth.Security = g.requirements()
			g.feat("method-level-security")
		}
	}
	secured := len(EffectiveSecurity(g.d, s, meth)) > 0
	if secured && len(meth.Security) == 0 {
		g.feat("inherited-security")
	}
	// payload
	pk := rapid.IntRange(0, 11).Draw(t, "payloadkind")
	if secured {
		pk = 5 // credentials live in an object payload
	}
	switch {
	case pk == 0:
		// no payload
		g.feat("no-payload")
	case pk == 1 && g.p.PrimPayloads:
		g.primitivePayload(meth, hasBodyVerb)
	case pk == 2 && g.p.UserTypes && len(g.objectTypes()) > 0 && hasBodyVerb:
		meth.Payload = m.UserRef(rapid.SampledFrom(g.objectTypes()).Draw(t, "payloadtype"))
		g.feat("user-type-payload")
		g.mapObjectPayload(meth, hasBodyVerb)
	default:
		obj := g.object(2, "")
		meth.Payload = &m.Attr{Type: obj}
		g.mapObjectPayload(meth, hasBodyVerb)
		if secured {
			g.credentials(s, meth)
		}
	}

	// routes (a websocket endpoint only supports GET)
	g.streamingNow = streaming != ""
	g.routes(s, meth, verb)
	g.streamingNow = false

	// result + responses
	if streaming != "" {
		g.streamTypes(meth, streaming)
	} else {
		g.result(meth)
	}

	// errors
	if g.p.Errors {
		g.methodErrors(s, meth)
	}
	s.Methods = append(s.Methods, meth)
}

// streamTypes draws the streamed payload and result of a streaming method.
// The result of a result-streaming or bidirectional method is the streamed
// result; a payload-streaming method returns one ordinary result at the end.
func (g *G) streamTypes(meth *m.Method, kind string) {
	t := g.t
	msg := func(label string, allowResultType bool) *m.Attr {
		switch k := rapid.IntRange(0, 7).Draw(t, label+"kind"); {
		case k == 0:
			a := m.Prim(g.prim())
			if a.Type.Kind == m.Any || a.Type.Kind == m.Bytes {
				a = m.Prim(m.String)
			}
			g.feat("streamed-primitive")
			return a
		case k == 1:
			g.feat("streamed-array")
			return &m.Attr{Type: &m.Type{Kind: m.Array, Elem: m.Prim(rapid.SampledFrom([]m.Kind{m.String, m.Int, m.Int64, m.Float64, m.Boolean, m.UInt32}).Draw(t, label+"elem"))}}
		case k == 2 && g.p.Maps:
			g.feat("streamed-map")
			return &m.Attr{Type: &m.Type{Kind: m.Map, Key: m.Prim(m.String), Val: m.Prim(rapid.SampledFrom([]m.Kind{m.String, m.Int, m.Float64}).Draw(t, label+"mval"))}}
		case (k == 3 || k == 4) && g.p.UserTypes && len(g.objectTypes()) > 0:
			g.feat("streamed-user-type")
			return m.UserRef(rapid.SampledFrom(g.objectTypes()).Draw(t, label+"ut"))
		case k == 5 && allowResultType && g.p.ResultTypes && len(g.resultTypes()) > 0:
			g.feat("streamed-result-type")
			return m.UserRef(rapid.SampledFrom(g.resultTypes()).Draw(t, label+"rt"))
		}
		g.feat("streamed-inline-object")
		return &m.Attr{Type: g.object(2, "")}
	}
	meth.Streaming = kind
	if kind != "result" {
		meth.StreamingPayload = msg("spayload", false)
		if RefsValidatedAlias(g.d, meth.StreamingPayload) && g.avoid("C01-streaming-payload-validated-alias") {
			meth.StreamingPayload = m.Prim(m.String)
		}
	}
	switch kind {
	case "payload":
		if rapid.IntRange(0, 3).Draw(t, "finalresult") != 0 {
			meth.Result = msg("final", false)
		}
	default:
		meth.Result = msg("sresult", true)
		if meth.Result.Type.Kind == m.User {
			if ut := g.d.TypeByName(meth.Result.Type.User); ut != nil && ut.Result && len(ut.Views) > 1 && rapid.IntRange(0, 2).Draw(t, "fixview") == 0 {
				meth.ResultView = ut.Views[rapid.IntRange(0, len(ut.Views)-1).Draw(t, "fixedview")].Name
				g.feat("fixed-view")
			}
		}
	}
}

func (g *G) objectTypes() []string {
	var out []string
	for _, ut := range g.d.Types {
		if ut.Attr != nil && ut.Attr.Type.Kind == m.Object && !ut.Result {
			out = append(out, ut.Name)
		}
	}
	return out
}

func (g *G) primitivePayload(meth *m.Method, hasBodyVerb bool) {
	t := g.t
	h := meth.HTTP
	k := rapid.IntRange(0, 3).Draw(t, "ppkind")
	switch {
	case k == 0 || !hasBodyVerb:
		// primitive mapped to a path or query parameter, or a header
		a := m.Prim(rapid.SampledFrom([]m.Kind{m.String, m.Int, m.UInt32, m.Float64, m.Boolean, m.Int64}).Draw(t, "ppprim"))
		if g.p.Validations && rapid.Bool().Draw(t, "ppval") {
			a.V = g.validation(a, 0)
		}
		meth.Payload = a
		nloc := 2
		if g.avoid("C01-primitive-payload-header") {
			nloc = 1
		}
		switch rapid.IntRange(0, nloc).Draw(t, "pploc") {
		case 0:
			pname := rapid.SampledFrom([]string{"id", "key", "p"}).Draw(t, "ppname")
			if pname == "p" && g.avoid("C02-primitive-payload-path-param-named-p") {
				pname = "id"
			}
			if canPath, _, _, _ := g.mappable(a); canPath {
				h.Path = []m.Mapping{{Attr: pname}}
			} else {
				// every value the validations allow contains a '/' (open finding on path values): carry it in the query
				h.Query = []m.Mapping{{Attr: "q"}}
			}
		case 1:
			h.Query = []m.Mapping{{Attr: "q"}}
		default:
			h.Headers = []m.Mapping{{Attr: "X-Val"}}
		}
		g.feat("primitive-payload-param")
	case k == 1:
		a := m.Prim(g.prim())
		if a.Type.Kind == m.Any && g.p.Runtime {
			a = m.Prim(m.String)
		}
		meth.Payload = a
		g.feat("primitive-payload-body")
	case k == 2:
		el := m.Prim(rapid.SampledFrom([]m.Kind{m.String, m.Int, m.Float64, m.Boolean, m.UInt64}).Draw(t, "ppelem"))
		a := &m.Attr{Type: &m.Type{Kind: m.Array, Elem: el}}
		if g.p.Validations && rapid.Bool().Draw(t, "ppaval") {
			a.V = g.validation(a, 0)
		}
		meth.Payload = a
		g.feat("array-payload-body")
	default:
		if !g.p.Maps {
			meth.Payload = m.Prim(m.String)
			return
		}
		a := &m.Attr{Type: &m.Type{Kind: m.Map, Key: m.Prim(m.String), Val: m.Prim(rapid.SampledFrom([]m.Kind{m.String, m.Int, m.Boolean}).Draw(t, "ppmval"))}}
		meth.Payload = a
		g.feat("map-payload-body")
	}
}

var wireHeaderNames = []string{"X-Request-Tag", "X-Api-Version", "X-Trace", "If-Match", "Accept-Language", "X-Count", "x-lower", "X-A", "X-B", "X-C", "X-Mixed-CASE"}

func (g *G) wire(kind, attr string, used map[string]bool) string {
	t := g.t
	if rapid.IntRange(0, 2).Draw(t, "rename") != 0 && kind != "header" {
		k := kind + ":" + strings.ToLower(attr)
		if !used[k] {
			used[k] = true
			return ""
		}
	}
	for try := 0; try < 20; try++ {
		var w string
		switch kind {
		case "header":
			w = rapid.SampledFrom(wireHeaderNames).Draw(t, "hwire")
		case "cookie":
			w = rapid.SampledFrom([]string{"sid", "SESSION", "c-1", "pref_x", "tok"}).Draw(t, "cwire")
		default:
			w = rapid.SampledFrom([]string{"q", "filter", "page_size", "sort-by", "X", "tag[]", "a.b", "k"}).Draw(t, "qwire")
		}
		k := kind + ":" + strings.ToLower(w)
		if !used[k] {
			used[k] = true
			g.feat("wire-rename")
			return w
		}
	}
	g.typeSeq++
	w := fmt.Sprintf("w%d", g.typeSeq)
	if kind == "header" {
		w = "X-W" + fmt.Sprint(g.typeSeq)
	}
	used[kind+":"+strings.ToLower(w)] = true
	return w
}

// mapObjectPayload distributes the payload's attributes over path, query,
// headers, cookies and body.
func (g *G) mapObjectPayload(meth *m.Method, hasBodyVerb bool) {
	t := g.t
	h := meth.HTTP
	fields := g.d.ObjectFields(meth.Payload)
	used := map[string]bool{}
	inline := meth.Payload.Type.Kind == m.Object
	g.inlinePayload = inline
	var bodyFields []string
	for _, f := range fields {
		canPath, canQuery, canHeader, canCookie := g.mappable(f.Attr)
		if GeneratedLocals[lowerCamel(f.Name)] && (canPath || canQuery || canHeader) && hasBodyVerb && g.avoid("C01-param-named-like-generated-local") {
			canPath, canQuery, canHeader = false, false, false
		}
		var opts []string
		if hasBodyVerb {
			opts = append(opts, "body", "body", "body")
		}
		if canPath && (f.Required || inline) && f.Attr.Default == nil && !(f.Name == "p" && g.avoid("C01-path-param-named-p")) {
			opts = append(opts, "path")
			if g.p.ParamHeavy {
				opts = append(opts, "path")
			}
		}
		if canQuery {
			opts = append(opts, "query", "query")
			if g.p.ParamHeavy {
				opts = append(opts, "query")
			}
		}
		if canHeader {
			opts = append(opts, "header")
			if g.p.ParamHeavy {
				opts = append(opts, "header", "header")
			}
		}
		if canCookie {
			opts = append(opts, "cookie")
			if g.p.ParamHeavy {
				opts = append(opts, "cookie")
			}
		}
		if len(opts) == 0 {
			// cannot be carried without a body: replace the attribute by a string
			f.Attr = m.Prim(m.String)
			opts = []string{"query"}
		}
		switch rapid.SampledFrom(opts).Draw(t, "loc:"+f.Name) {
		case "path":
			f.Required = true
			h.Path = append(h.Path, m.Mapping{Attr: f.Name})
			g.feat("path-param")
		case "query":
			mp := m.Mapping{Attr: f.Name, Wire: g.wire("query", f.Name, used)}
			h.Query = append(h.Query, mp)
			g.mappingBound(f)
			g.feat("query-param")
			if g.d.Underlying(f.Attr) == m.Array {
				g.feat("query-array")
			}
		case "header":
			mp := m.Mapping{Attr: f.Name, Wire: g.wire("header", f.Name, used)}
			h.Headers = append(h.Headers, mp)
			if !g.avoid("C04-validation-written-in-header-mapping-not-enforced") {
				g.mappingBound(f)
			}
			g.feat("header")
			if g.d.Underlying(f.Attr) == m.Array {
				g.feat("header-array")
			}
		case "cookie":
			mp := m.Mapping{Attr: f.Name, Wire: g.wire("cookie", f.Name, used)}
			h.Cookies = append(h.Cookies, mp)
			g.feat("cookie")
		default:
			bodyFields = append(bodyFields, f.Name)
		}
	}
	// explicit body forms
	if g.p.ExplicitBody && hasBodyVerb && len(bodyFields) > 0 {
		switch rapid.IntRange(0, 5).Draw(t, "bodymode") {
		case 0:
			if len(bodyFields) == 1 {
				if BodyAttrOptionalNonPointer(g.d, meth.Payload, bodyFields[0]) && g.avoid("C01-body-attr-optional-nonpointer") {
					break
				}
				if f := g.d.FieldByName(meth.Payload, bodyFields[0]); f != nil && f.Attr.Type.Kind == m.Union && g.avoid("C01-union-in-body-fields") {
					break
				}
				if f := g.d.FieldByName(meth.Payload, bodyFields[0]); f != nil && f.Attr.Type.Kind == m.Object && g.p.Runtime && g.avoid("C02-body-fields-client-sends-whole-payload") {
					break
				}
				h.Body = &m.Body{Mode: "attr", Attr: bodyFields[0]}
				if BodyAttrRecursiveValidatedUT(g.d, meth) && g.avoid("C01-body-attr-recursive-validated-user-type") {
					h.Body = nil
					break
				}
				g.feat("body-attr")
			}
		case 1:
			ok := true
			for _, n := range bodyFields {
				f := g.d.FieldByName(meth.Payload, n)
				if refsUser(f.Attr) && g.avoid("C01-body-fields-user-type") {
					ok = false
				}
				if f.Attr.Type.Kind == m.Object && g.avoid("C01-body-fields-inline-required") {
					ok = false
				}
				if f.Attr.Type.Kind == m.Union && g.avoid("C01-union-in-body-fields") {
					ok = false
				}
			}
			if ok && g.p.Runtime && g.avoid("C02-body-fields-client-sends-whole-payload") {
				ok = false
			}
			if ok {
				h.Body = &m.Body{Mode: "fields", Fields: bodyFields}
				g.feat("body-fields")
			}
		}
	}
	if len(bodyFields) > 0 {
		g.feat("body")
	}
	nloc := 0
	for _, n := range []int{len(h.Path), len(h.Query), len(h.Headers), len(h.Cookies), len(bodyFields)} {
		if n > 0 {
			nloc++
		}
	}
	if nloc >= 2 {
		g.feat("multi-location")
	}
}

// mappingBound sometimes gives a query or header parameter an upper bound
// written in the mapping (Param("x", func(){ Maximum(50) })). The bound
// complements what the attribute's type already says (an alias with a Minimum
// gets a Maximum, a plain string a MaxLength), so valid values exist.
func (g *G) mappingBound(f *m.Field) {
	if !g.p.Validations || !f.Attr.V.Empty() || f.Attr.Default != nil || !g.inlinePayload || rapid.IntRange(0, 3).Draw(g.t, "mapbound:"+f.Name) != 0 {
		return // (the fields of a user type payload belong to every user of the type)
	}
	_, chain := g.d.Resolve(f.Attr)
	mv := mergedValidation(chain)
	if len(mv.Enum) > 0 || mv.Format != "" || mv.Pattern != "" {
		return
	}
	switch k := g.d.Underlying(f.Attr); {
	case k.IsInt():
		if mv.Max != nil || mv.ExclMax != nil {
			return
		}
		lo := 0.0
		if mv.Min != nil {
			lo = *mv.Min
		}
		if mv.ExclMin != nil {
			lo = *mv.ExclMin + 1
		}
		f.Attr.V = &m.Validation{Max: fp(lo + 40)}
	case k == m.String:
		if mv.MaxLen != nil {
			return
		}
		lo := 0
		if mv.MinLen != nil {
			lo = *mv.MinLen
		}
		f.Attr.V = &m.Validation{MaxLen: ip(lo + 6)}
	default:
		return
	}
	f.Attr.VAtMapping = true
	g.feat("validation-in-mapping")
	if f.Attr.Type.Kind == m.User {
		g.feat("validation-in-mapping-on-alias")
	}
}

// routes builds 1-3 routes containing every path parameter.
func (g *G) routes(s *m.Service, meth *m.Method, verb string) {
	t := g.t
	h := meth.HTTP
	base := "/" + norm(meth.Name)
	var params string
	for _, p := range h.Path {
		params += "/{" + p.Attr + "}"
	}
	mk := func(prefix string) string {
		switch rapid.IntRange(0, 3).Draw(t, "pathshape") {
		case 0:
			return prefix + params
		case 1:
			if params != "" {
				return params + prefix
			}
		case 2:
			if len(h.Path) >= 2 {
				return "/{" + h.Path[0].Attr + "}" + prefix + strings.TrimPrefix(params, "/{"+h.Path[0].Attr+"}")
			}
		}
		return prefix + params
	}
	// the same verb and path may not be mounted twice (goa does not detect
	// collisions between services): make the literal part unique when needed
	unique := func(verb, path string) string {
		for try := 0; ; try++ {
			key := verb + " " + oraclePath(g.d.API.BasePath, s.BasePath, path)
			if !g.used["R:"+key] {
				g.used["R:"+key] = true
				return path
			}
			path = "/" + norm(s.Name) + fmt.Sprint(try) + path
		}
	}
	h.Routes = append(h.Routes, m.Route{Verb: verb, Path: unique(verb, mk(base))})
	if g.p.MultiRoute && rapid.IntRange(0, 2).Draw(t, "multiroute") == 0 {
		n := rapid.IntRange(1, 2).Draw(t, "nextra")
		for i := 0; i < n; i++ {
			v := verb
			if rapid.Bool().Draw(t, "otherverb") && meth.Streaming == "" && !g.streamingNow {
				if verb == "GET" || verb == "DELETE" || verb == "OPTIONS" || verb == "TRACE" {
					v = rapid.SampledFrom([]string{"GET", "DELETE"}).Draw(t, "nbverb2")
				} else {
					v = rapid.SampledFrom([]string{"POST", "PUT", "PATCH"}).Draw(t, "bverb2")
				}
			}
			if g.p.AbsoluteRoutes && rapid.IntRange(0, 2).Draw(t, "absroute") == 0 {
				// an absolute route ("//path") ignores the API and service base paths
				rel := mk(fmt.Sprintf("%s/abs%d", base, i+1))
				for try := 0; ; try++ {
					key := v + " " + oraclePath(rel)
					if !g.used["R:"+key] {
						g.used["R:"+key] = true
						break
					}
					rel = "/" + norm(s.Name) + fmt.Sprint(try) + rel
				}
				h.Routes = append(h.Routes, m.Route{Verb: v, Path: "/" + rel})
				g.feat("absolute-route")
				continue
			}
			h.Routes = append(h.Routes, m.Route{Verb: v, Path: unique(v, mk(fmt.Sprintf("%s/alt%d", base, i+1)))})
		}
		g.feat("multi-route")
	}
}

var resultStatuses = []int{200, 200, 201, 202, 206}

func (g *G) result(meth *m.Method) {
	t := g.t
	h := meth.HTTP
	rk := rapid.IntRange(0, 11).Draw(t, "resultkind")
	if g.p.RespHeavy && rk >= 8 && len(g.resultTypes()) > 0 {
		rk = 2
	}
	if g.p.ViewHeavy && rk >= 3 && len(g.resultTypes()) > 0 {
		rk = 2
	}
	switch {
	case rk == 0:
		// no result: 204 by default, or an explicit empty 200/202
		if rapid.Bool().Draw(t, "explicitempty") {
			h.Responses = []*m.Response{{Status: rapid.SampledFrom([]int{204, 200, 202}).Draw(t, "emptystatus")}}
		}
		g.feat("no-result")
		return
	case rk == 1 && g.p.PrimPayloads:
		k := rapid.IntRange(0, 2).Draw(t, "prkind")
		switch k {
		case 0:
			a := m.Prim(g.prim())
			if g.p.Runtime && a.Type.Kind == m.Any {
				a = m.Prim(m.Int)
			}
			meth.Result = a
			g.feat("primitive-result")
		case 1:
			meth.Result = &m.Attr{Type: &m.Type{Kind: m.Array, Elem: m.Prim(rapid.SampledFrom([]m.Kind{m.String, m.Int, m.Float64, m.Boolean}).Draw(t, "prelem"))}}
			g.feat("array-result")
		default:
			if g.p.Maps {
				meth.Result = &m.Attr{Type: &m.Type{Kind: m.Map, Key: m.Prim(m.String), Val: m.Prim(rapid.SampledFrom([]m.Kind{m.String, m.Int, m.Float64}).Draw(t, "prmval"))}}
				g.feat("map-result")
			} else {
				meth.Result = m.Prim(m.String)
			}
		}
		if rapid.Bool().Draw(t, "primstatus") {
			h.Responses = []*m.Response{{Status: rapid.SampledFrom(resultStatuses).Draw(t, "pstatus")}}
		}
		return
	case rk == 2 && g.p.ResultTypes && len(g.resultTypes()) > 0:
		name := rapid.SampledFrom(g.resultTypes()).Draw(t, "resulttype")
		if g.p.Collections && rapid.IntRange(0, 3).Draw(t, "collection") == 0 &&
			!(typeHasInlineObjectDeep(g.d, g.d.TypeByName(name), map[string]bool{}) && g.avoid("C01-collection-of-result-type-with-inline-object")) {
			name = g.collectionOf(name)
			g.feat("collection-result")
		}
		meth.Result = m.UserRef(name)
		ut := g.d.TypeByName(name)
		if len(ut.Views) > 1 && rapid.IntRange(0, 2).Draw(t, "fixview") == 0 {
			meth.ResultView = ut.Views[rapid.IntRange(0, len(ut.Views)-1).Draw(t, "fixedview")].Name
			g.feat("fixed-view")
		}
		g.feat("result-type-result")
		g.mapObjectResult(meth)
		return
	case rk == 3 && g.p.UserTypes && len(g.objectTypes()) > 0:
		meth.Result = m.UserRef(rapid.SampledFrom(g.objectTypes()).Draw(t, "resultut"))
		g.feat("user-type-result")
		g.mapObjectResult(meth)
		return
	default:
		meth.Result = &m.Attr{Type: g.object(2, "")}
		g.mapObjectResult(meth)
	}
}

// collectionOf returns (creating it when needed) the collection result type of a result type.
func (g *G) collectionOf(elem string) string {
	name := elem + "Collection"
	if g.d.TypeByName(name) != nil {
		return name
	}
	el := g.d.TypeByName(elem)
	ut := &m.UserType{Name: name, Var: g.newVar(), Result: true, CollectionOf: elem,
		Attr: &m.Attr{Type: &m.Type{Kind: m.Array, Elem: m.UserRef(elem)}}}
	for _, v := range el.Views {
		ut.Views = append(ut.Views, &m.View{Name: v.Name})
	}
	g.d.Types = append(g.d.Types, ut)
	return name
}

func (g *G) resultTypes() []string {
	var out []string
	for _, ut := range g.d.Types {
		if ut.Result && ut.Attr != nil && ut.CollectionOf == "" {
			out = append(out, ut.Name)
		}
	}
	return out
}

// mapObjectResult builds 1-3 success responses: status, headers, cookies, body.
func (g *G) mapObjectResult(meth *m.Method) {
	t := g.t
	h := meth.HTTP
	fields := g.d.ObjectFields(meth.Result)
	isResultType := false
	if meth.Result.Type.Kind == m.User {
		if ut := g.d.TypeByName(meth.Result.Type.User); ut != nil && ut.Result {
			isResultType = true
		}
	}
	if !g.p.RespHeavy && rapid.IntRange(0, 3).Draw(t, "defaultresp") == 0 || g.p.RespHeavy && rapid.IntRange(0, 7).Draw(t, "defaultresp2") == 0 {
		return // default response: 200, everything in the body
	}
	r := &m.Response{Status: rapid.SampledFrom(resultStatuses).Draw(t, "status")}
	used := map[string]bool{}
	var bodyFields []string
	recursiveResult := meth.Result.Type.Kind == m.User && isResultType && isRecursiveType(g.d, meth.Result.Type.User)
	for _, f := range fields {
		_, _, canHeader, canCookie := g.mappable(f.Attr)
		if recursiveResult && g.avoid("C03-recursive-result-header-attr-lost-in-nested") {
			canHeader, canCookie = false, false
		}
		// a response header/cookie attribute of a result type must exist in all views
		if isResultType {
			ut := g.d.TypeByName(meth.Result.Type.User)
			for _, v := range ut.Views {
				in := false
				for _, vf := range v.Fields {
					if vf.Name == f.Name {
						in = true
					}
				}
				if !in {
					canHeader, canCookie = false, false
				}
			}
		}
		if isResultType && (f.Required || f.Attr.Default != nil) && (canHeader || canCookie) && !MergedValidation(g.d, f.Attr).Empty() && g.avoid("C01-result-type-required-validated-response-header") {
			canHeader, canCookie = false, false
		}
		if canHeader && g.d.Underlying(f.Attr) == m.Array {
			if v := MergedValidation(g.d, f.Attr); v.MinLen != nil && *v.MinLen >= 2 && g.avoid("C03-response-header-array-not-split") {
				canHeader = false
			}
		}
		if canHeader && (g.d.Underlying(f.Attr) != m.String || f.Attr.Type.Kind == m.User) && g.avoid("C07-openapi2-response-header-go-type-names") {
			canHeader = false
		}
		if canHeader && GeneratedLocals[lowerCamel(f.Name)] && g.avoid("C01-param-named-like-generated-local") {
			canHeader = false
		}
		opts := []string{"body", "body", "body"}
		if g.p.RespHeaders && canHeader {
			opts = append(opts, "header", "header")
		}
		if canCookie && isResultType && f.Attr.Default != nil && g.avoid("C01-result-type-response-cookie-with-default") {
			canCookie = false
		}
		if g.p.RespHeaders && canCookie && (g.d.Underlying(f.Attr) == m.String || !g.avoid("C01-response-cookie-nonstring")) {
			opts = append(opts, "cookie")
			if g.p.RespHeavy {
				opts = append(opts, "cookie")
			}
		}
		switch rapid.SampledFrom(opts).Draw(t, "rloc:"+f.Name) {
		case "header":
			r.Headers = append(r.Headers, m.Mapping{Attr: f.Name, Wire: g.wire("header", f.Name, used)})
			g.feat("response-header")
		case "cookie":
			r.Cookies = append(r.Cookies, m.Mapping{Attr: f.Name, Wire: g.wire("cookie", f.Name, used)})
			g.feat("response-cookie")
		default:
			bodyFields = append(bodyFields, f.Name)
		}
	}
	if g.p.ExplicitBody && !isResultType && len(bodyFields) == 1 && rapid.IntRange(0, 3).Draw(t, "rbodyattr") == 0 {
		if f := g.d.FieldByName(meth.Result, bodyFields[0]); !(f != nil && f.Attr.Type.Kind == m.Union && g.avoid("C01-union-in-body-fields")) {
			r.Body = &m.Body{Mode: "attr", Attr: bodyFields[0]}
			g.feat("response-body-attr")
		}
	}
	h.Responses = append(h.Responses, r)
	// tagged responses: need a string attribute to tag on
	if g.p.Tags && !isResultType {
		var tagAttrs []*m.Field
		for _, f := range fields {
			// (also a string with a default: the service result then has a plain string field, not a pointer)
			if f.Attr.Type.Kind == m.String && f.Attr.V.Empty() {
				tagAttrs = append(tagAttrs, f)
			}
		}
		if len(tagAttrs) > 0 && (g.p.RespHeavy || rapid.IntRange(0, 2).Draw(t, "tagged") == 0) {
			f := tagAttrs[rapid.IntRange(0, len(tagAttrs)-1).Draw(t, "tagattr")]
			n := rapid.IntRange(1, 2).Draw(t, "ntags")
			statuses := []int{201, 202, 206, 200}
			k := 0
			for i := 0; i < n; i++ {
				for k < len(statuses) && statuses[k] == r.Status {
					k++
				}
				if k >= len(statuses) {
					break
				}
				tr := &m.Response{Status: statuses[k], TagName: f.Name, TagValue: []string{"special", "other value"}[i]}
				k++
				// same header/cookie mapping as the untagged response, so that every
				// response can carry the whole result
				tr.Headers, tr.Cookies, tr.Body = r.Headers, r.Cookies, r.Body
				h.Responses = append([]*m.Response{tr}, h.Responses...)
			}
			// the untagged response may be declared anywhere among the tagged ones
			// (goa itself moves it behind them when it generates the encoders)
			if n := len(h.Responses); n >= 2 {
				if pos := rapid.IntRange(0, n-1).Draw(t, "untaggedpos"); pos != n-1 {
					rs := append([]*m.Response{}, h.Responses[:n-1]...)
					rs = append(rs[:pos], append([]*m.Response{h.Responses[n-1]}, rs[pos:]...)...)
					h.Responses = rs
					g.feat("untagged-response-not-last")
				}
			}
			g.feat("tagged-response")
		}
	}
}

var errorNames = []string{"not_found", "bad_input", "conflict", "too_busy", "unauthorized", "internal_failure"}

func (g *G) methodErrors(s *m.Service, meth *m.Method) {
	t := g.t
	n := rapid.IntRange(0, 3).Draw(t, "nerrors")
	scope := map[string]bool{}
	statuses := []int{400, 404, 409, 422, 500, 503}
	var customType string // custom error type shared by this method's custom errors
	for i := 0; i < n; i++ {
		e := &m.ErrorDef{Name: g.pickName(errorNames, scope, "errname")}
		if g.p.CustomErrors && rapid.IntRange(0, 2).Draw(t, "customerr") == 0 {
			switch rapid.IntRange(0, 3).Draw(t, "customkind") {
			case 0:
				e.Type = m.Prim(m.String)
				g.feat("primitive-error-type")
			default:
				if customType == "" {
					customType = g.customErrorType()
				}
				e.Type = m.UserRef(customType)
				g.feat("custom-error-type")
			}
		} else {
			e.Temporary = rapid.IntRange(0, 3).Draw(t, "etemp") == 0
			e.Timeout = rapid.IntRange(0, 3).Draw(t, "etimeout") == 0
			e.Fault = rapid.IntRange(0, 3).Draw(t, "efault") == 0
		}
		meth.Errors = append(meth.Errors, e)
		er := &m.ErrorResponse{Name: e.Name, Status: rapid.SampledFrom(statuses).Draw(t, "estatus"), Level: "method"}
		if e.Type != nil && e.Type.Type.Kind == m.User && rapid.Bool().Draw(t, "errheader") && !g.avoid("C07-openapi2-response-header-go-type-names") {
			er.Headers = []m.Mapping{{Attr: "code", Wire: "X-Err-Code"}}
			g.feat("error-response-header")
		}
		meth.HTTP.ErrorResp = append(meth.HTTP.ErrorResp, er)
		g.feat("method-error")
	}
	// re-declare inherited errors at the method level, in any order: their HTTP
	// mapping stays where it is defined (service or API level)
	var inh []*m.ErrorDef
	for _, se := range s.Errors {
		c := *se
		inh = append(inh, &c)
	}
	if len(g.d.API.Errors) > 0 && !g.apiErrInService {
		inh = append(inh, &m.ErrorDef{Name: g.d.API.Errors[0].Name})
	}
	if len(inh) > 0 && rapid.IntRange(0, 2).Draw(t, "methinherit") > 0 {
		if len(inh) > 1 && rapid.Bool().Draw(t, "inheritorder") {
			inh[0], inh[len(inh)-1] = inh[len(inh)-1], inh[0]
		}
		for _, e := range inh {
			if len(inh) > 1 && rapid.IntRange(0, 3).Draw(t, "inheritskip") == 0 {
				continue
			}
			meth.Errors = append(meth.Errors, e)
			isAPI := len(g.d.API.Errors) > 0 && e.Name == g.d.API.Errors[0].Name
			if isAPI {
				g.feat("api-error-reused-by-method")
			} else {
				g.feat("service-error-redeclared-by-method")
			}
		}
		if rapid.Bool().Draw(t, "inheritfirst") {
			// inherited errors first, the method's own errors after
			k := len(meth.Errors) - n
			if k > 0 && n > 0 {
				own := append([]*m.ErrorDef{}, meth.Errors[:n]...)
				meth.Errors = append(append([]*m.ErrorDef{}, meth.Errors[n:]...), own...)
			}
		}
	}
	seen := map[int]int{}
	for _, er := range meth.HTTP.ErrorResp {
		seen[er.Status]++
		if seen[er.Status] == 2 {
			g.feat("errors-share-status")
		}
	}
}

// customErrorType adds an object user type usable for several errors: it
// carries the error name in an ErrorName attribute.
func (g *G) customErrorType() string {
	t := g.t
	name := "Err" + g.newTypeName()
	ut := &m.UserType{Name: name, Var: g.newVar()}
	obj := &m.Type{Kind: m.Object}
	obj.Fields = append(obj.Fields, &m.Field{Name: "name", Attr: m.Prim(m.String), Required: true, ErrName: true})
	obj.Fields = append(obj.Fields, &m.Field{Name: "detail", Attr: m.Prim(m.String), Required: rapid.Bool().Draw(t, "detailreq")})
	obj.Fields = append(obj.Fields, &m.Field{Name: "code", Attr: m.Prim(m.Int)})
	if rapid.Bool().Draw(t, "errextra") {
		obj.Fields = append(obj.Fields, &m.Field{Name: "items", Attr: &m.Attr{Type: &m.Type{Kind: m.Array, Elem: m.Prim(m.String)}}})
	}
	ut.Attr = &m.Attr{Type: obj}
	g.d.Types = append(g.d.Types, ut)
	return name
}

var reParam = regexp.MustCompile(`\{[^}]*\}`)

// oraclePath normalises a full path for collision detection: parameters are anonymous.
func oraclePath(parts ...string) string {
	var segs []string
	for _, p := range parts {
		for _, s := range strings.Split(p, "/") {
			if s != "" {
				segs = append(segs, reParam.ReplaceAllString(s, "{}"))
			}
		}
	}
	return "/" + strings.Join(segs, "/")
}

func cookieSafe(s string) bool {
	for _, r := range s {
		if r <= 0x20 || r >= 0x7f || r == '"' || r == ';' || r == '\\' || r == ',' {
			return false
		}
	}
	return true
}

// isRecursiveType reports whether the named user type refers to itself.
func isRecursiveType(d *m.Design, name string) bool {
	ut := d.TypeByName(name)
	if ut == nil || ut.Attr == nil {
		return false
	}
	seen := map[string]bool{}
	var walk func(t *m.Type) bool
	walk = func(t *m.Type) bool {
		if t == nil {
			return false
		}
		switch t.Kind {
		case m.User:
			if t.User == name {
				return true
			}
			if seen[t.User] {
				return false
			}
			seen[t.User] = true
			if u := d.TypeByName(t.User); u != nil && u.Attr != nil {
				return walk(u.Attr.Type)
			}
		case m.Array:
			return walk(t.Elem.Type)
		case m.Map:
			return walk(t.Val.Type) || walk(t.Key.Type)
		case m.Object, m.Union:
			for _, f := range t.Fields {
				if walk(f.Attr.Type) {
					return true
				}
			}
		}
		return false
	}
	return walk(ut.Attr.Type)
}

// credentials adds the credential attributes the effective requirements need
// to the (inline object) payload and maps them to the request.
func (g *G) credentials(s *m.Service, meth *m.Method) {
	t := g.t
	h := meth.HTTP
	obj := meth.Payload.Type
	have := map[string]bool{}
	for _, f := range obj.Fields {
		have[norm(f.Name)] = true
	}
	authorizationTaken := false
	for _, r := range EffectiveSecurity(g.d, s, meth) {
		for _, name := range r.Schemes {
			if sc := SchemeByName(g.d, name); sc != nil && sc.Kind == "basic" {
				authorizationTaken = true // Basic credentials own the Authorization header
			}
		}
	}
	seen := map[string]bool{}
	for _, r := range EffectiveSecurity(g.d, s, meth) {
		for _, name := range r.Schemes {
			if seen[name] {
				continue
			}
			seen[name] = true
			sc := SchemeByName(g.d, name)
			add := func(attr, kind string) string {
				for have[norm(attr)] {
					attr += "x"
				}
				have[norm(attr)] = true
				obj.Fields = append(obj.Fields, &m.Field{Name: attr, Attr: m.Prim(m.String), Required: rapid.IntRange(0, 4).Draw(t, "credreq") != 0})
				meth.Creds = append(meth.Creds, m.Cred{Scheme: name, Kind: kind, Attr: attr})
				return attr
			}
			switch sc.Kind {
			case "basic":
				add("user", "username")
				add("pass", "password")
				authorizationTaken = true
			case "apikey":
				a := add("key_"+norm(name), "apikey")
				if rapid.Bool().Draw(t, "keyinquery") {
					h.Query = append(h.Query, m.Mapping{Attr: a, Wire: "k-" + norm(name)})
					g.feat("apikey-in-query")
				} else {
					h.Headers = append(h.Headers, m.Mapping{Attr: a, Wire: "X-Key-" + norm(name)})
					g.feat("apikey-in-header")
				}
			case "jwt", "oauth2":
				kind := "token"
				if sc.Kind == "oauth2" {
					kind = "accesstoken"
				}
				a := add("tok_"+norm(name), kind)
				if !authorizationTaken && rapid.Bool().Draw(t, "implicitauth") {
					// unmapped: goa puts it in the Authorization header
					authorizationTaken = true
					h.Headers = append(h.Headers, m.Mapping{Attr: a, Wire: "Authorization"})
					meth.ImplicitAuth = append(meth.ImplicitAuth, a)
					g.feat("implicit-authorization")
				} else if rapid.Bool().Draw(t, "tokeninquery") {
					h.Query = append(h.Query, m.Mapping{Attr: a, Wire: "t-" + norm(name)})
				} else {
					h.Headers = append(h.Headers, m.Mapping{Attr: a, Wire: "X-Tok-" + norm(name)})
				}
			}
		}
	}
}
