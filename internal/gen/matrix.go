package gen

import (
	"fmt"
	"strings"

	m "verif/internal/model"
	"verif/internal/value"
)

// ParamMatrix is a fixed design that crosses every parameter location
// (path, query, header, cookie; response header, response cookie) with
// {required, optional, defaulted} and {wire name = attribute name, renamed}.
// Random designs reach each cell only now and then; checks that compare
// per-parameter facts (location, name, required flag, value) add it to every
// run so that each cell is exercised at least once.
func ParamMatrix() *m.Design {
	str := func() *m.Attr { return m.Prim(m.String) }
	def := func(v string) *m.Attr { a := m.Prim(m.String); x := value.Str(v); a.Default = &x; return a }
	obj := func(fs ...*m.Field) *m.Attr { return &m.Attr{Type: &m.Type{Kind: m.Object, Fields: fs}} }
	fld := func(n string, a *m.Attr, req bool) *m.Field { return &m.Field{Name: n, Attr: a, Required: req} }

	var reqFields []*m.Field
	h := &m.HTTPEndpoint{Routes: []m.Route{{Verb: "POST", Path: "/matrix/{p_same}/{p_two}"}}}
	reqFields = append(reqFields, fld("p_same", str(), true), fld("p_two", str(), true))
	h.Path = []m.Mapping{{Attr: "p_same"}, {Attr: "p_two"}}
	for _, loc := range []string{"q", "h", "c"} {
		for _, kind := range []string{"req", "opt", "def"} {
			for _, ren := range []bool{false, true} {
				name := loc + "_" + kind
				wire := ""
				if ren {
					name += "_ren"
					wire = map[string]string{"q": "Q-", "h": "X-Hdr-", "c": "ck"}[loc] + kind
				}
				a := str()
				if kind == "def" {
					a = def("dflt")
				}
				reqFields = append(reqFields, fld(name, a, kind == "req"))
				mp := m.Mapping{Attr: name, Wire: wire}
				switch loc {
				case "q":
					h.Query = append(h.Query, mp)
				case "h":
					h.Headers = append(h.Headers, mp)
				case "c":
					h.Cookies = append(h.Cookies, mp)
				}
			}
		}
	}
	reqFields = append(reqFields, fld("body_req", str(), true), fld("body_opt", str(), false))

	var resFields []*m.Field
	resp := &m.Response{Status: 200}
	for _, loc := range []string{"h", "c"} {
		for _, kind := range []string{"req", "opt", "def"} {
			for _, ren := range []bool{false, true} {
				name := "r" + loc + "_" + kind
				wire := ""
				if ren {
					name += "_ren"
					wire = map[string]string{"h": "X-Res-", "c": "rck"}[loc] + kind
				}
				a := str()
				if kind == "def" {
					a = def("rdflt")
				}
				resFields = append(resFields, fld(name, a, kind == "req"))
				mp := m.Mapping{Attr: name, Wire: wire}
				if loc == "h" {
					resp.Headers = append(resp.Headers, mp)
				} else {
					resp.Cookies = append(resp.Cookies, mp)
				}
			}
		}
	}
	resFields = append(resFields, fld("rbody_req", str(), true), fld("rbody_opt", str(), false))
	h.Responses = []*m.Response{resp}

	meth := &m.Method{Name: "cross", Payload: obj(reqFields...), Result: obj(resFields...), HTTP: h}

	// typed parameters: non-string primitives and arrays in query and header
	i64 := func() *m.Attr { return m.Prim(m.Int64) }
	arr := func(e *m.Attr) *m.Attr { return &m.Attr{Type: &m.Type{Kind: m.Array, Elem: e}} }
	th := &m.HTTPEndpoint{Routes: []m.Route{{Verb: "GET", Path: "/typed/{id}"}},
		Path:    []m.Mapping{{Attr: "id"}},
		Query:   []m.Mapping{{Attr: "n_req", Wire: "n"}, {Attr: "n_opt"}, {Attr: "flag"}, {Attr: "list_req", Wire: "l"}, {Attr: "list_opt"}},
		Headers: []m.Mapping{{Attr: "hn_req", Wire: "X-N"}, {Attr: "hlist", Wire: "X-List"}}}
	typed := &m.Method{Name: "typed", Payload: obj(
		fld("id", m.Prim(m.UInt32), true), fld("n_req", i64(), true), fld("n_opt", i64(), false), fld("flag", m.Prim(m.Boolean), false),
		fld("list_req", arr(m.Prim(m.String)), true), fld("list_opt", arr(i64()), false), fld("hn_req", m.Prim(m.Float64), true), fld("hlist", arr(m.Prim(m.String)), false),
	), HTTP: th}

	// small methods: few parameters each, so that single-fault mutants reach every one of them quickly
	small := func(name, verb string, h *m.HTTPEndpoint, fs ...*m.Field) *m.Method {
		h.Routes = []m.Route{{Verb: verb, Path: "/" + name}}
		return &m.Method{Name: name, Payload: obj(fs...), HTTP: h}
	}
	cookies := small("cookies", "GET", &m.HTTPEndpoint{Cookies: []m.Mapping{{Attr: "session", Wire: "SID"}}, Query: []m.Mapping{{Attr: "theme"}}},
		fld("session", str(), true), fld("theme", str(), false))
	optcookie := small("optcookie", "GET", &m.HTTPEndpoint{Cookies: []m.Mapping{{Attr: "theme", Wire: "ui-theme"}}},
		fld("theme", &m.Attr{Type: &m.Type{Kind: m.String}, V: &m.Validation{Enum: []value.V{value.Str("dark"), value.Str("light")}}}, false))
	headers := small("headers", "GET", &m.HTTPEndpoint{Headers: []m.Mapping{{Attr: "token", Wire: "X-Token"}, {Attr: "trace", Wire: "X-Trace"}}},
		fld("token", str(), true), fld("trace", str(), false))
	queries := small("queries", "GET", &m.HTTPEndpoint{Query: []m.Mapping{{Attr: "filter", Wire: "f"}, {Attr: "page"}}},
		fld("filter", str(), true), fld("page", i64(), false))

	return &m.Design{API: m.API{Name: "matrix", Title: "Parameter matrix"},
		Services: []*m.Service{{Name: "matrix", HasHTTP: true, Methods: []*m.Method{meth, typed, cookies, optcookie, headers, queries}}},
		Features: []string{"fixed-design:param-matrix", "cookie", "renamed-cookie", "response-cookie", "response-header", "required-default-optional-matrix", "typed-params"}}
}

func typeLevelView(a *m.Attr, view string) *m.Attr { a.View = view; return a }

// ViewMatrix is a fixed design that crosses, inside the views of one result
// type, sibling attributes of the same nested result type with every way of
// choosing the nested view (no override, each named view), in several
// orders, directly and through an array.
func ViewMatrix() *m.Design {
	str := func() *m.Attr { return m.Prim(m.String) }
	obj := func(fs ...*m.Field) *m.Attr { return &m.Attr{Type: &m.Type{Kind: m.Object, Fields: fs}} }
	fld := func(n string, a *m.Attr, req bool) *m.Field { return &m.Field{Name: n, Attr: a, Required: req} }
	vf := func(pairs ...string) []m.ViewField {
		var out []m.ViewField
		for i := 0; i+1 < len(pairs); i += 2 {
			out = append(out, m.ViewField{Name: pairs[i], View: pairs[i+1]})
		}
		return out
	}
	leaf := &m.UserType{Name: "Leaf", Var: "vleaf", Result: true, Identifier: "application/vnd.matrix.leaf",
		Attr: obj(fld("a", m.Prim(m.Int), true), fld("b", str(), false), fld("c", str(), false)),
		Views: []*m.View{
			{Name: "default", Fields: vf("a", "", "b", "", "c", "")},
			{Name: "tiny", Fields: vf("a", "")},
			{Name: "extended", Fields: vf("a", "", "b", "")},
		}}
	arr := func(e *m.Attr) *m.Attr { return &m.Attr{Type: &m.Type{Kind: m.Array, Elem: e}} }
	tree := &m.UserType{Name: "Tree", Var: "vtree", Result: true, Identifier: "application/vnd.matrix.tree",
		// l4 carries a view at the type level (Attribute("l4", Leaf, func(){ View("tiny") })):
		// views that list them without an override inherit it, views may override it, also back to "default"
		// code is required and left out of the views "rev" and "one": what a view leaves out is not required of its rendering
		Attr: obj(fld("title", str(), true), fld("code", str(), true), fld("l1", m.UserRef("Leaf"), false), fld("l2", m.UserRef("Leaf"), false), fld("l3", m.UserRef("Leaf"), false), fld("many", arr(m.UserRef("Leaf")), false),
			fld("l4", typeLevelView(m.UserRef("Leaf"), "tiny"), false), fld("lots", arr(m.UserRef("Leaf")), false)),
		Views: []*m.View{
			{Name: "default", Fields: vf("title", "", "code", "", "l1", "", "l2", "tiny", "l3", "extended", "many", "", "l4", "", "lots", "")},
			{Name: "alt", Fields: vf("title", "", "code", "", "l1", "tiny", "l2", "", "l3", "tiny", "many", "tiny", "l4", "default", "lots", "default")},
			// alt2 lists exactly the attributes of alt, in the same order, and differs only in the views of the nested result types
			{Name: "alt2", Fields: vf("title", "", "code", "", "l1", "extended", "l2", "tiny", "l3", "", "many", "extended", "l4", "tiny", "lots", "tiny")},
			{Name: "rev", Fields: vf("l3", "extended", "title", "", "l1", "", "l2", "tiny", "lots", "tiny", "l4", "extended")},
			{Name: "one", Fields: vf("title", "", "l2", "extended", "l4", "")},
		}}
	trees := &m.UserType{Name: "TreeCollection", Var: "vtrees", Result: true, CollectionOf: "Tree", Attr: arr(m.UserRef("Tree")),
		Views: []*m.View{{Name: "default"}, {Name: "alt"}, {Name: "alt2"}, {Name: "rev"}, {Name: "one"}}}
	// a result type with a single view that leaves out an attribute with a default
	planDefault := value.Str("free")
	plan := str()
	plan.Default = &planDefault
	solo := &m.UserType{Name: "Solo", Var: "vsolo", Result: true, Identifier: "application/vnd.matrix.solo",
		Attr:  obj(fld("id", m.Prim(m.Int), true), fld("plan", plan, false), fld("note", str(), false)),
		Views: []*m.View{{Name: "default", Fields: vf("id", "", "note", "")}}}
	solos := &m.UserType{Name: "SoloCollection", Var: "vsolos", Result: true, CollectionOf: "Solo", Attr: arr(m.UserRef("Solo")), Views: []*m.View{{Name: "default"}}}
	get := func(name, view string, t string) *m.Method {
		return &m.Method{Name: name, Result: m.UserRef(t), ResultView: view, HTTP: &m.HTTPEndpoint{Routes: []m.Route{{Verb: "GET", Path: "/" + name}}}}
	}
	// a viewed result whose attributes travel in a cookie and a header as well as in the body
	session := &m.UserType{Name: "Session", Var: "vsession", Result: true, Identifier: "application/vnd.matrix.session",
		Attr: obj(fld("id", str(), true), fld("token", str(), true), fld("lang", str(), false), fld("note", str(), false)),
		Views: []*m.View{
			{Name: "default", Fields: vf("id", "", "token", "", "lang", "", "note", "")},
			{Name: "tiny", Fields: vf("id", "", "token", "", "lang", "")},
		}}
	getSession := get("getsession", "", "Session")
	getSession.HTTP.Responses = []*m.Response{{Status: 200, Cookies: []m.Mapping{{Attr: "token", Wire: "SID"}}, Headers: []m.Mapping{{Attr: "lang", Wire: "X-Lang"}}}}
	return &m.Design{API: m.API{Name: "viewmatrix", Title: "View matrix"},
		Types: []*m.UserType{leaf, tree, trees, solo, solos, session},
		// getlate: a method that leaves the view to the service, declared after methods that fix one for the same type
		Services: []*m.Service{{Name: "viewmatrix", HasHTTP: true, Methods: []*m.Method{get("get", "", "Tree"), get("getalt", "alt", "Tree"), get("getrev", "rev", "Tree"), get("getlate", "", "Tree"), get("list", "", "TreeCollection"), get("getsolo", "", "Solo"), get("listsolos", "", "SoloCollection"), getSession}}},
		Features: []string{"fixed-design:view-matrix", "result-type", "views", "nested-view-override", "sibling-nested-views", "collection", "viewed-result-in-cookie-and-header", "view-left-open-after-fixed-view", "two-views-same-attributes-different-nested-views"}}
}

// GRPCMatrix is a fixed gRPC design crossing the message shapes random designs
// reach only now and then: every primitive kind as a field, a primitive alias
// as field / array element / map key / map value, nested arrays and maps,
// required and optional nested messages, arrays and maps, request metadata of
// several kinds, shuffled and sparse field numbers.
func GRPCMatrix() *m.Design {
	obj := func(fs ...*m.Field) *m.Attr { return &m.Attr{Type: &m.Type{Kind: m.Object, Fields: fs}} }
	tag := 0
	fld := func(n string, a *m.Attr, req bool) *m.Field {
		tag++
		return &m.Field{Name: n, Attr: a, Required: req, Tag: tag}
	}
	reset := func(start int) { tag = start }
	arr := func(e *m.Attr) *m.Attr { return &m.Attr{Type: &m.Type{Kind: m.Array, Elem: e}} }
	mp := func(k, v *m.Attr) *m.Attr { return &m.Attr{Type: &m.Type{Kind: m.Map, Key: k, Val: v}} }
	prim := m.Prim

	// aliases
	uuid := &m.UserType{Name: "Ident", Var: "vident", Attr: &m.Attr{Type: &m.Type{Kind: m.String}, V: &m.Validation{MinLen: ip(2), MaxLen: ip(12)}}}
	score := &m.UserType{Name: "Score", Var: "vscore", Attr: &m.Attr{Type: &m.Type{Kind: m.Int32}, V: &m.Validation{Min: fp(0), Max: fp(100)}}}
	// nested messages
	reset(0)
	addr := &m.UserType{Name: "Address", Var: "vaddr", Attr: obj(fld("street", prim(m.String), true), fld("zip", prim(m.UInt32), false))}
	reset(10)
	line := &m.UserType{Name: "Line", Var: "vline", Attr: obj(fld("sku", m.UserRef("Ident"), true), fld("qty", prim(m.Int32), true), fld("weights", arr(prim(m.Float64)), false))}

	reset(0)
	kinds := &m.Method{Name: "kinds", GRPC: &m.GRPCEndpoint{}, Payload: obj(
		fld("s", prim(m.String), false), fld("i", prim(m.Int), false), fld("i32", prim(m.Int32), false), fld("i64", prim(m.Int64), true),
		fld("u", prim(m.UInt), false), fld("u32", prim(m.UInt32), true), fld("u64", prim(m.UInt64), false),
		fld("f32", prim(m.Float32), false), fld("f64", prim(m.Float64), true), fld("b", prim(m.Boolean), false), fld("raw", prim(m.Bytes), false))}
	reset(0)
	kinds.Result = obj(fld("s", prim(m.String), true), fld("i64", prim(m.Int64), false), fld("u32", prim(m.UInt32), false), fld("f64", prim(m.Float64), false), fld("b", prim(m.Boolean), true), fld("raw", prim(m.Bytes), false))

	reset(3)
	aliases := &m.Method{Name: "aliases", GRPC: &m.GRPCEndpoint{}, Payload: obj(
		fld("id", m.UserRef("Ident"), true), fld("ids", arr(m.UserRef("Ident")), false), fld("by_id", mp(m.UserRef("Ident"), prim(m.Int64)), false),
		fld("scores", mp(prim(m.String), m.UserRef("Score")), false), fld("top", m.UserRef("Score"), false), fld("grid", arr(arr(prim(m.Int32))), false))}
	reset(0)
	aliases.Result = obj(fld("ids", arr(m.UserRef("Ident")), true), fld("scores", mp(prim(m.String), m.UserRef("Score")), false))

	reset(100)
	order := &m.UserType{Name: "Order", Var: "vorder", Attr: obj(
		fld("id", prim(m.String), true), fld("ship_to", m.UserRef("Address"), true), fld("bill_to", m.UserRef("Address"), false),
		fld("lines", arr(m.UserRef("Line")), true), fld("notes", arr(prim(m.String)), false),
		fld("attrs", mp(prim(m.String), prim(m.String)), true), fld("extra", mp(prim(m.String), m.UserRef("Address")), false))}
	place := &m.Method{Name: "place", GRPC: &m.GRPCEndpoint{Metadata: []m.Mapping{{Attr: "id"}}, Message: []string{"ship_to", "lines", "notes"}, RespMessage: []string{"ship_to", "attrs"}},
		Payload: m.UserRef("Order"), Result: m.UserRef("Order")}

	reset(0)
	meta := &m.Method{Name: "meta", Payload: obj(
		fld("token", prim(m.String), true), fld("shard", prim(m.Int64), false), fld("debug", prim(m.Boolean), false), fld("ratio", prim(m.Float64), false),
		fld("tags", arr(prim(m.String)), false), fld("body", prim(m.String), true), fld("where", m.UserRef("Address"), true),
		fld("seq", prim(m.UInt32), false), fld("big", prim(m.UInt64), false), fld("small", prim(m.Int32), true), fld("f32", prim(m.Float32), false), fld("counts", arr(prim(m.UInt64)), false)),
		GRPC: &m.GRPCEndpoint{Metadata: []m.Mapping{{Attr: "token"}, {Attr: "shard"}, {Attr: "debug"}, {Attr: "ratio"}, {Attr: "tags"}, {Attr: "seq"}, {Attr: "big"}, {Attr: "small"}, {Attr: "f32"}, {Attr: "counts"}}}}
	reset(0)
	meta.Result = obj(fld("ok", prim(m.Boolean), true))

	// one array user type (validated itself, elements validated) as payload and
	// as result of the same method: the same message travels in both directions
	// (the element type is reached through this message only: whatever the generators
	// collect for it comes from this one request/response pair)
	reset(0)
	nameA, qtyA := prim(m.String), prim(m.Int)
	nameA.V, qtyA.V = &m.Validation{MinLen: ip(1)}, &m.Validation{Min: fp(1)}
	entry := &m.UserType{Name: "Entry", Var: "ventry", Attr: obj(fld("name", nameA, true), fld("qty", qtyA, true), fld("tags", arr(prim(m.String)), false))}
	lines := &m.UserType{Name: "Entries", Var: "ventries", Attr: &m.Attr{Type: &m.Type{Kind: m.Array, Elem: m.UserRef("Entry")}, V: &m.Validation{MinLen: ip(1), MaxLen: ip(3)}}}
	batch := &m.Method{Name: "batch", GRPC: &m.GRPCEndpoint{}, Payload: m.UserRef("Entries"), Result: m.UserRef("Entries")}

	health := &m.Service{Name: "health", HasHTTP: true, Methods: []*m.Method{{Name: "ping", HTTP: &m.HTTPEndpoint{Routes: []m.Route{{Verb: "GET", Path: "/ping"}}}}}}
	return &m.Design{API: m.API{Name: "grpcmatrix", Title: "gRPC matrix", Server: true},
		Types:    []*m.UserType{uuid, score, addr, line, order, entry, lines},
		Services: []*m.Service{{Name: "grpcmatrix", HasGRPC: true, Methods: []*m.Method{kinds, aliases, place, meta, batch}}, health},
		Features: []string{"fixed-design:grpc-matrix", "alias", "alias-array-element", "alias-map-key", "alias-map-value", "nested-array", "required-nested-message", "required-array", "required-map", "request-metadata", "sparse-tags"}}
}

// DefaultsMatrix is a fixed design about default values: defaults declared on
// the attribute and defaults declared on a primitive alias type (inherited by
// every attribute of that type), at the top level, in a nested user type and
// in array elements, for request and response bodies, plus alias-typed
// attributes in query and header.
func DefaultsMatrix() *m.Design {
	obj := func(fs ...*m.Field) *m.Attr { return &m.Attr{Type: &m.Type{Kind: m.Object, Fields: fs}} }
	fld := func(n string, a *m.Attr, req bool) *m.Field { return &m.Field{Name: n, Attr: a, Required: req} }
	arr := func(e *m.Attr) *m.Attr { return &m.Attr{Type: &m.Type{Kind: m.Array, Elem: e}} }
	withDef := func(a *m.Attr, v value.V) *m.Attr { a.Default = &v; return a }
	fromAlias := func(name string, v value.V) *m.Attr {
		a := m.UserRef(name)
		a.Default, a.DefaultFromAlias = &v, true
		return a
	}
	prio := &m.UserType{Name: "Priority", Var: "vprio", Attr: withDef(&m.Attr{Type: &m.Type{Kind: m.Int}, V: &m.Validation{Min: fp(0), Max: fp(9)}}, value.Int(3))}
	label := &m.UserType{Name: "Label", Var: "vlabel", Attr: withDef(m.Prim(m.String), value.Str("none"))}
	ratio := &m.UserType{Name: "Ratio", Var: "vratio", Attr: withDef(m.Prim(m.Float64), value.Float(0.5))}
	mapOf := func(k, v *m.Attr) *m.Attr { return &m.Attr{Type: &m.Type{Kind: m.Map, Key: k, Val: v}} }
	// defaults on collections: an explicitly empty array or map is a value of its own, only an unset one gets the default
	step := &m.UserType{Name: "Step", Var: "vstep", Attr: obj(fld("name", m.Prim(m.String), true), fld("priority", fromAlias("Priority", value.Int(3)), false), fld("weight", withDef(m.Prim(m.Int), value.Int(5)), false),
		fld("tags", withDef(arr(m.Prim(m.String)), value.Array(value.Str("new"), value.Str("misc"))), false))}
	task := func() *m.Attr {
		return obj(fld("id", m.Prim(m.String), true),
			fld("priority", fromAlias("Priority", value.Int(3)), false),
			fld("label", fromAlias("Label", value.Str("none")), false),
			fld("ratio", fromAlias("Ratio", value.Float(0.5)), false),
			fld("weight", withDef(m.Prim(m.Int), value.Int(5)), false),
			fld("done", withDef(m.Prim(m.Boolean), value.Bool(true)), false),
			fld("first", m.UserRef("Step"), false),
			fld("steps", arr(m.UserRef("Step")), false),
			fld("labels", withDef(arr(m.Prim(m.String)), value.Array(value.Str("a"), value.Str("b"))), false),
			fld("weights", withDef(mapOf(m.Prim(m.String), m.Prim(m.Int64)), value.V{K: "map", A: []value.V{value.Str("w"), value.Int(1)}}), false))
	}
	body := &m.Method{Name: "body", Payload: task(), Result: task(), HTTP: &m.HTTPEndpoint{Routes: []m.Route{{Verb: "POST", Path: "/defaults/body"}}}}
	params := &m.Method{Name: "params", Payload: obj(fld("id", m.Prim(m.String), true),
		fld("priority", fromAlias("Priority", value.Int(3)), false), fld("label", fromAlias("Label", value.Str("none")), false), fld("weight", withDef(m.Prim(m.Int), value.Int(5)), false)),
		Result: obj(fld("ok", m.Prim(m.Boolean), true)),
		HTTP: &m.HTTPEndpoint{Routes: []m.Route{{Verb: "GET", Path: "/defaults/params/{id}"}}, Path: []m.Mapping{{Attr: "id"}},
			Query: []m.Mapping{{Attr: "priority", Wire: "prio"}, {Attr: "weight"}}, Headers: []m.Mapping{{Attr: "label", Wire: "X-Label"}}}}
	return &m.Design{API: m.API{Name: "defaults", Title: "Defaults matrix"},
		Types:    []*m.UserType{prio, label, ratio, step},
		Services: []*m.Service{{Name: "defaults", HasHTTP: true, Methods: []*m.Method{body, params}}},
		Features: []string{"fixed-design:defaults-matrix", "alias", "alias-type-default", "default-inherited-from-alias", "default", "nested-default", "collection-default"}}
}

// DefaultsBodyMatrix is the body half of DefaultsMatrix on its own (a design
// whose parameter half does not build would take the body half with it).
func DefaultsBodyMatrix() *m.Design {
	d := DefaultsMatrix()
	d.API.Name, d.API.Title = "defaultsbody", "Defaults matrix (bodies)"
	s := d.Services[0]
	s.Name = "defaultsbody"
	var keep []*m.Method
	for _, meth := range s.Methods {
		if meth.Name == "body" {
			meth.HTTP.Routes = []m.Route{{Verb: "POST", Path: "/defaultsbody/body"}}
			keep = append(keep, meth)
		}
	}
	s.Methods = keep
	d.Features = append(d.Features, "fixed-design:defaults-body-matrix")
	return d
}

// KindMatrix is a fixed design with one small method per (primitive kind,
// parameter location, required/optional/defaulted) cell: the method carries
// that single attribute and nothing else, so that code generated for one cell
// cannot lean on declarations another parameter of the same method brings
// along. Arrays of every kind travel in query and header as well.
func KindMatrix() *m.Design {
	obj := func(fs ...*m.Field) *m.Attr { return &m.Attr{Type: &m.Type{Kind: m.Object, Fields: fs}} }
	fld := func(n string, a *m.Attr, req bool) *m.Field { return &m.Field{Name: n, Attr: a, Required: req} }
	kinds := []struct {
		k    m.Kind
		name string
		def  value.V
	}{
		{m.Boolean, "bool", value.Bool(true)}, {m.Int, "int", value.Int(-7)}, {m.Int32, "int32", value.Int(32)}, {m.Int64, "int64", value.Int(-64)},
		{m.UInt, "uint", value.Uint(7)}, {m.UInt32, "uint32", value.Uint(32)}, {m.UInt64, "uint64", value.Uint(64)},
		{m.Float32, "float32", value.Float(1.5)}, {m.Float64, "float64", value.Float(-2.25)}, {m.String, "string", value.Str("dflt")},
	}
	var methods []*m.Method
	add := func(name string, payload *m.Attr, h *m.HTTPEndpoint) {
		if len(h.Routes) == 0 {
			h.Routes = []m.Route{{Verb: "GET", Path: "/kinds/" + name}}
		}
		methods = append(methods, &m.Method{Name: name, Payload: payload, HTTP: h})
	}
	for _, k := range kinds {
		for _, loc := range []string{"q", "h"} {
			for _, mode := range []string{"req", "opt", "def"} {
				a := m.Prim(k.k)
				if mode == "def" {
					dv := k.def
					a.Default = &dv
				}
				h := &m.HTTPEndpoint{}
				if loc == "q" {
					h.Query = []m.Mapping{{Attr: "amount", Wire: "v"}}
				} else {
					h.Headers = []m.Mapping{{Attr: "amount", Wire: "X-Val"}}
				}
				add(loc+"_"+k.name+"_"+mode, obj(fld("amount", a, mode == "req")), h)
			}
			// arrays
			arr := &m.Attr{Type: &m.Type{Kind: m.Array, Elem: m.Prim(k.k)}}
			h := &m.HTTPEndpoint{}
			if loc == "q" {
				h.Query = []m.Mapping{{Attr: "amounts", Wire: "v"}}
			} else {
				h.Headers = []m.Mapping{{Attr: "amounts", Wire: "X-Vals"}}
			}
			add(loc+"_"+k.name+"_array", obj(fld("amounts", arr, false)), h)
		}
		// path segment (always required)
		add("p_"+k.name, obj(fld("amount", m.Prim(k.k), true)), &m.HTTPEndpoint{Routes: []m.Route{{Verb: "GET", Path: "/kinds/p_" + k.name + "/{amount}"}}, Path: []m.Mapping{{Attr: "amount"}}})
	}
	return &m.Design{API: m.API{Name: "kinds", Title: "Kind matrix"},
		Services: []*m.Service{{Name: "kinds", HasHTTP: true, Methods: methods}},
		Features: []string{"fixed-design:kind-matrix", "typed-params", "single-parameter-methods", "array-params", "default"}}
}

// MapKeyMatrix is a fixed design with body maps keyed by every integer kind and
// by strings (Boolean and Float keys make goa gen fail: open finding
// C01-map-key-bool-or-float-gen-fails): generated examples of such
// maps show up in the OpenAPI documents and in the client CLI usage.
func MapKeyMatrix() *m.Design {
	obj := func(fs ...*m.Field) *m.Attr { return &m.Attr{Type: &m.Type{Kind: m.Object, Fields: fs}} }
	fld := func(n string, a *m.Attr, req bool) *m.Field { return &m.Field{Name: n, Attr: a, Required: req} }
	mp := func(k, v m.Kind) *m.Attr { return &m.Attr{Type: &m.Type{Kind: m.Map, Key: m.Prim(k), Val: m.Prim(v)}} }
	var fs []*m.Field
	var methods []*m.Method
	for _, k := range []struct {
		k    m.Kind
		name string
	}{{m.Int, "int"}, {m.Int32, "int32"}, {m.Int64, "int64"}, {m.UInt, "uint"}, {m.UInt32, "uint32"}, {m.UInt64, "uint64"}, {m.String, "string"}} {
		fs = append(fs, fld("by_"+k.name, mp(k.k, m.Int64), false), fld("flags_"+k.name, mp(k.k, m.Boolean), false))
		// the payload itself is the map (one CLI flag carries the whole map)
		methods = append(methods, &m.Method{Name: "put_" + k.name, Payload: mp(k.k, m.Boolean), HTTP: &m.HTTPEndpoint{Routes: []m.Route{{Verb: "POST", Path: "/put/" + k.name}}}},
			&m.Method{Name: "set_" + k.name, Payload: mp(k.k, m.Int64), HTTP: &m.HTTPEndpoint{Routes: []m.Route{{Verb: "PUT", Path: "/set/" + k.name}}}})
	}
	meth := &m.Method{Name: "index", Payload: obj(fs...), Result: obj(fld("n", m.Prim(m.Int), false)),
		HTTP: &m.HTTPEndpoint{Routes: []m.Route{{Verb: "POST", Path: "/index"}}}}
	methods = append(methods, meth)
	return &m.Design{API: m.API{Name: "mapkeys", Title: "Map key matrix"},
		Services: []*m.Service{{Name: "mapkeys", HasHTTP: true, Methods: methods}},
		Features: []string{"fixed-design:map-key-matrix", "map", "non-string-map-keys"}}
}

// ValidationMatrix is a fixed design in which several methods carry an
// attribute with the same name (same error context: "body.name", "prefix")
// but different constraints, so that anything the runtime validators remember
// between calls (compiled patterns ...) under a key that does not identify the
// constraint shows up as one method judged by another method's rule.
func ValidationMatrix() *m.Design {
	obj := func(fs ...*m.Field) *m.Attr { return &m.Attr{Type: &m.Type{Kind: m.Object, Fields: fs}} }
	fld := func(n string, a *m.Attr, req bool) *m.Field { return &m.Field{Name: n, Attr: a, Required: req} }
	pat := func(p string) *m.Attr { return &m.Attr{Type: &m.Type{Kind: m.String}, V: &m.Validation{Pattern: p}} }
	fmtA := func(f string) *m.Attr { return &m.Attr{Type: &m.Type{Kind: m.String}, V: &m.Validation{Format: f}} }
	var methods []*m.Method
	for i, p := range Patterns {
		methods = append(methods, &m.Method{Name: fmt.Sprintf("body%d", i), Payload: obj(fld("name", pat(p.Pattern), true), fld("note", m.Prim(m.String), false)),
			HTTP: &m.HTTPEndpoint{Routes: []m.Route{{Verb: "POST", Path: fmt.Sprintf("/v/body%d", i)}}}})
		methods = append(methods, &m.Method{Name: fmt.Sprintf("query%d", i), Payload: obj(fld("prefix", pat(p.Pattern), true)),
			HTTP: &m.HTTPEndpoint{Routes: []m.Route{{Verb: "GET", Path: fmt.Sprintf("/v/query%d", i)}}, Query: []m.Mapping{{Attr: "prefix"}}}})
	}
	for i, f := range []string{"FormatDate", "FormatUUID", "FormatIPv4", "FormatIPv6", "FormatEmail"} {
		methods = append(methods, &m.Method{Name: fmt.Sprintf("format%d", i), Payload: obj(fld("name", fmtA(f), true)),
			HTTP: &m.HTTPEndpoint{Routes: []m.Route{{Verb: "POST", Path: fmt.Sprintf("/v/format%d", i)}}}})
	}
	// bounds written in the HTTP mapping, on a plain attribute and on attributes of
	// alias types that bring bounds of their own (the effective validation is the union)
	quantity := &m.UserType{Name: "Quantity", Var: "vquantity", Attr: &m.Attr{Type: &m.Type{Kind: m.Int}, V: &m.Validation{Min: fp(1)}}}
	code := &m.UserType{Name: "Code", Var: "vcode", Attr: &m.Attr{Type: &m.Type{Kind: m.String}, V: &m.Validation{MinLen: ip(2)}}}
	atMap := func(a *m.Attr, v *m.Validation) *m.Attr { a.V, a.VAtMapping = v, true; return a }
	methods = append(methods, &m.Method{Name: "stock",
		Payload: obj(fld("sku", m.Prim(m.String), true), fld("batch", atMap(m.UserRef("Quantity"), &m.Validation{Max: fp(50)}), false),
			fld("fill", atMap(m.Prim(m.Int), &m.Validation{Max: fp(10)}), false), fld("code", atMap(m.UserRef("Code"), &m.Validation{MaxLen: ip(5)}), false)),
		HTTP: &m.HTTPEndpoint{Routes: []m.Route{{Verb: "POST", Path: "/v/stock/{sku}"}}, Path: []m.Mapping{{Attr: "sku"}},
			Query: []m.Mapping{{Attr: "batch"}, {Attr: "fill"}, {Attr: "code"}}}})
	// a user type whose only validations sit on the elements of an array and on
	// the keys and values of a map (nothing on its fields, nothing required)
	arrOf := func(e *m.Attr) *m.Attr { return &m.Attr{Type: &m.Type{Kind: m.Array, Elem: e}} }
	enumStr := func(vs ...string) *m.Attr {
		a := m.Prim(m.String)
		a.V = &m.Validation{}
		for _, v := range vs {
			a.V.Enum = append(a.V.Enum, value.Str(v))
		}
		return a
	}
	small := m.Prim(m.Int)
	small.V = &m.Validation{Max: fp(9)}
	key := m.Prim(m.String)
	key.V = &m.Validation{MaxLen: ip(3)}
	bag := &m.UserType{Name: "Bag", Var: "vbag", Attr: obj(fld("tags", arrOf(enumStr("red", "green", "blue")), false),
		fld("counts", &m.Attr{Type: &m.Type{Kind: m.Map, Key: key, Val: small}}, false), fld("note", m.Prim(m.String), false))}
	methods = append(methods, &m.Method{Name: "bagcheck", Payload: obj(fld("bag", m.UserRef("Bag"), false), fld("bags", arrOf(m.UserRef("Bag")), false)),
		Result: obj(fld("bag", m.UserRef("Bag"), false)),
		HTTP:   &m.HTTPEndpoint{Routes: []m.Route{{Verb: "POST", Path: "/v/bagcheck"}}}})
	// required attributes that also declare a default, in the body and in a nested user type
	modeDef, levelDef := value.Str("fast"), value.Int(3)
	mode := m.Prim(m.String)
	mode.Default = &modeDef
	level := m.Prim(m.Int)
	level.Default = &levelDef
	step := &m.UserType{Name: "VStep", Var: "vvstep", Attr: obj(fld("name", m.Prim(m.String), true), fld("level", level, true))}
	methods = append(methods, &m.Method{Name: "reqdef", Payload: obj(fld("mode", mode, true), fld("steps", arrOf(m.UserRef("VStep")), false), fld("note", m.Prim(m.String), false)),
		HTTP: &m.HTTPEndpoint{Routes: []m.Route{{Verb: "POST", Path: "/v/reqdef"}}}})
	// one validated alias type used several times in one body (attribute, second
	// attribute, array element, map element) and in the result
	slug := &m.UserType{Name: "Slug", Var: "vslug", Attr: &m.Attr{Type: &m.Type{Kind: m.String}, V: &m.Validation{Pattern: Patterns[0].Pattern, MaxLen: ip(12)}}}
	pct := &m.UserType{Name: "Percent", Var: "vpercent", Attr: &m.Attr{Type: &m.Type{Kind: m.Int}, V: &m.Validation{Min: fp(0), Max: fp(100)}}}
	methods = append(methods, &m.Method{Name: "twice",
		Payload: obj(fld("slug", m.UserRef("Slug"), true), fld("parent", m.UserRef("Slug"), false), fld("tags", arrOf(m.UserRef("Slug")), false),
			fld("discount", m.UserRef("Percent"), false), fld("member_discount", m.UserRef("Percent"), false),
			fld("by_name", &m.Attr{Type: &m.Type{Kind: m.Map, Key: m.Prim(m.String), Val: m.UserRef("Percent")}}, false)),
		Result: obj(fld("slug", m.UserRef("Slug"), false), fld("alias", m.UserRef("Slug"), false)),
		HTTP:   &m.HTTPEndpoint{Routes: []m.Route{{Verb: "POST", Path: "/v/twice"}}}})
	// a result type whose smaller view is declared before the default view, alone
	// and as a collection: the validations of the attributes the small view leaves
	// out belong to the default view of every element
	vname := m.Prim(m.String)
	vname.V = &m.Validation{MinLen: ip(3)}
	vscore := m.Prim(m.Float64)
	vscore.V = &m.Validation{ExclMin: fp(0)}
	vview := func(names ...string) []m.ViewField {
		var out []m.ViewField
		for _, n := range names {
			out = append(out, m.ViewField{Name: n})
		}
		return out
	}
	vitem := &m.UserType{Name: "VItem", Var: "vvitem", Result: true, Identifier: "application/vnd.validations.item",
		Attr:  obj(fld("id", m.Prim(m.Int), true), fld("name", vname, true), fld("score", vscore, false)),
		Views: []*m.View{{Name: "tiny", Fields: vview("id")}, {Name: "default", Fields: vview("id", "name", "score")}}}
	vitems := &m.UserType{Name: "VItemCollection", Var: "vvitems", Result: true, CollectionOf: "VItem", Attr: arrOf(m.UserRef("VItem")),
		Views: []*m.View{{Name: "tiny"}, {Name: "default"}}}
	methods = append(methods,
		&m.Method{Name: "getitem", Result: m.UserRef("VItem"), HTTP: &m.HTTPEndpoint{Routes: []m.Route{{Verb: "GET", Path: "/v/item"}}}},
		&m.Method{Name: "listitems", Result: m.UserRef("VItemCollection"), HTTP: &m.HTTPEndpoint{Routes: []m.Route{{Verb: "GET", Path: "/v/items"}}}})
	return &m.Design{API: m.API{Name: "validations", Title: "Validation matrix"},
		Types:    []*m.UserType{quantity, code, bag, step, slug, pct, vitem, vitems},
		Services: []*m.Service{{Name: "validations", HasHTTP: true, Methods: methods}},
		Features: []string{"fixed-design:validation-matrix", "pattern", "format", "same-attribute-name-different-constraints", "validation-in-mapping", "validation-in-mapping-on-alias", "validated-alias-used-twice-in-one-body", "small-view-declared-before-default-view"}}
}

// VerbMatrix is a fixed design with one endpoint per HTTP verb (HEAD included:
// goa only accepts HEAD routes on endpoints whose responses and errors carry no
// body, which random designs almost never satisfy), HEAD next to GET on one
// path, several verbs on one path, and a parameterised path per verb.
func VerbMatrix() *m.Design {
	obj := func(fs ...*m.Field) *m.Attr { return &m.Attr{Type: &m.Type{Kind: m.Object, Fields: fs}} }
	fld := func(n string, a *m.Attr, req bool) *m.Field { return &m.Field{Name: n, Attr: a, Required: req} }
	var methods []*m.Method
	for _, v := range []string{"GET", "HEAD", "POST", "PUT", "PATCH", "DELETE", "OPTIONS", "TRACE"} {
		lv := strings.ToLower(v)
		methods = append(methods,
			&m.Method{Name: lv + "_plain", HTTP: &m.HTTPEndpoint{Routes: []m.Route{{Verb: v, Path: "/verbs/" + lv}}, Responses: []*m.Response{{Status: 204}}}},
			&m.Method{Name: lv + "_item", Payload: obj(fld("id", m.Prim(m.String), true), fld("q", m.Prim(m.Int), false)),
				HTTP: &m.HTTPEndpoint{Routes: []m.Route{{Verb: v, Path: "/verbs/items/{id}/" + lv}}, Path: []m.Mapping{{Attr: "id"}}, Query: []m.Mapping{{Attr: "q"}}, Responses: []*m.Response{{Status: 204}}}})
	}
	// HEAD and GET (and DELETE) on the same path
	methods = append(methods,
		&m.Method{Name: "shared_get", HTTP: &m.HTTPEndpoint{Routes: []m.Route{{Verb: "GET", Path: "/verbs/shared/{id}"}}, Path: []m.Mapping{{Attr: "id"}}, Responses: []*m.Response{{Status: 204}}}, Payload: obj(fld("id", m.Prim(m.String), true))},
		&m.Method{Name: "shared_head", HTTP: &m.HTTPEndpoint{Routes: []m.Route{{Verb: "HEAD", Path: "/verbs/shared/{id}"}}, Path: []m.Mapping{{Attr: "id"}}, Responses: []*m.Response{{Status: 204}}}, Payload: obj(fld("id", m.Prim(m.String), true))},
		&m.Method{Name: "shared_delete", HTTP: &m.HTTPEndpoint{Routes: []m.Route{{Verb: "DELETE", Path: "/verbs/shared/{id}"}}, Path: []m.Mapping{{Attr: "id"}}, Responses: []*m.Response{{Status: 204}}}, Payload: obj(fld("id", m.Prim(m.String), true))},
		// one endpoint, two routes of different verbs
		&m.Method{Name: "ping", HTTP: &m.HTTPEndpoint{Routes: []m.Route{{Verb: "HEAD", Path: "/verbs/ping"}, {Verb: "OPTIONS", Path: "/verbs/ping"}}, Responses: []*m.Response{{Status: 204}}}})
	return &m.Design{API: m.API{Name: "verbs", Title: "Verb matrix"},
		// file servers (GET) on paths that endpoints of other verbs use: in the same
		// service and in a service declared later
		Services: []*m.Service{{Name: "verbs", HasHTTP: true, Methods: methods, Files: []m.FileServer{{Path: "/verbs/post", Filename: "public/post.html"}}},
			{Name: "assets", HasHTTP: true, Files: []m.FileServer{{Path: "/verbs/put", Filename: "public/put.html"}, {Path: "/verbs/delete", Filename: "public/delete.html"}},
				Methods: []*m.Method{{Name: "info", HTTP: &m.HTTPEndpoint{Routes: []m.Route{{Verb: "GET", Path: "/assets/info"}}, Responses: []*m.Response{{Status: 204}}}}}}},
		Features: []string{"fixed-design:verb-matrix", "all-verbs", "head-route", "two-verbs-one-path", "file-server-on-the-path-of-a-non-GET-endpoint"}}
}

// RawBodyMatrix is a fixed design whose methods stream the HTTP request and /
// or response body themselves (SkipRequestBodyEncodeDecode,
// SkipResponseBodyEncodeDecode): the payload travels in path, query and
// headers, the result in response headers, the bodies are opaque bytes.
func RawBodyMatrix() *m.Design {
	obj := func(fs ...*m.Field) *m.Attr { return &m.Attr{Type: &m.Type{Kind: m.Object, Fields: fs}} }
	fld := func(n string, a *m.Attr, req bool) *m.Field { return &m.Field{Name: n, Attr: a, Required: req} }
	str, i64 := func() *m.Attr { return m.Prim(m.String) }, func() *m.Attr { return m.Prim(m.Int64) }
	upload := &m.Method{Name: "upload",
		Payload: obj(fld("id", str(), true), fld("tag", str(), false), fld("n", i64(), false)),
		Result:  obj(fld("size", i64(), true), fld("echo", str(), false)),
		HTTP: &m.HTTPEndpoint{Routes: []m.Route{{Verb: "POST", Path: "/raw/{id}"}}, Path: []m.Mapping{{Attr: "id"}},
			Headers: []m.Mapping{{Attr: "tag", Wire: "X-Tag"}}, Query: []m.Mapping{{Attr: "n"}}, SkipReqBody: true}}
	download := &m.Method{Name: "download",
		Payload: obj(fld("id", str(), true), fld("part", i64(), false)),
		Result:  obj(fld("length", i64(), true), fld("kind", str(), false)),
		HTTP: &m.HTTPEndpoint{Routes: []m.Route{{Verb: "GET", Path: "/raw/{id}"}}, Path: []m.Mapping{{Attr: "id"}}, Query: []m.Mapping{{Attr: "part"}}, SkipRespBody: true,
			Responses: []*m.Response{{Status: 200, Headers: []m.Mapping{{Attr: "length", Wire: "X-Length"}, {Attr: "kind", Wire: "X-Kind"}}}}}}
	pipe := &m.Method{Name: "pipe",
		Payload: obj(fld("id", str(), true), fld("mode", str(), false)),
		Result:  obj(fld("length", i64(), true)),
		HTTP: &m.HTTPEndpoint{Routes: []m.Route{{Verb: "PUT", Path: "/raw/{id}/pipe"}}, Path: []m.Mapping{{Attr: "id"}}, Headers: []m.Mapping{{Attr: "mode", Wire: "X-Mode"}},
			SkipReqBody: true, SkipRespBody: true,
			Responses: []*m.Response{{Status: 200, Headers: []m.Mapping{{Attr: "length", Wire: "X-Length"}}}}}}
	plain := &m.Method{Name: "plain", Payload: obj(fld("id", str(), true), fld("note", str(), false)), Result: obj(fld("ok", m.Prim(m.Boolean), true)),
		HTTP: &m.HTTPEndpoint{Routes: []m.Route{{Verb: "POST", Path: "/raw/{id}/plain"}}, Path: []m.Mapping{{Attr: "id"}}}}
	return &m.Design{API: m.API{Name: "rawbodies", Title: "Raw body matrix"},
		Services: []*m.Service{{Name: "rawbodies", HasHTTP: true, Methods: []*m.Method{upload, download, pipe, plain}}},
		Features: []string{"fixed-design:raw-body-matrix", "skip-request-body-encode-decode", "skip-response-body-encode-decode"}}
}

// StreamMatrix is a fixed design with the three streaming kinds over HTTP
// (websocket): the payload travels in path, query and headers of the upgrade
// request, the streamed messages are a string, an integer, an array, a user
// type with nested collections, validations and a default, and a result type
// rendered with a view chosen by the service (SetView).
func StreamMatrix() *m.Design {
	obj := func(fs ...*m.Field) *m.Attr { return &m.Attr{Type: &m.Type{Kind: m.Object, Fields: fs}} }
	fld := func(n string, a *m.Attr, req bool) *m.Field { return &m.Field{Name: n, Attr: a, Required: req} }
	str, i64 := func() *m.Attr { return m.Prim(m.String) }, func() *m.Attr { return m.Prim(m.Int64) }
	arr := func(e *m.Attr) *m.Attr { return &m.Attr{Type: &m.Type{Kind: m.Array, Elem: e}} }
	mp := func(k, v *m.Attr) *m.Attr { return &m.Attr{Type: &m.Type{Kind: m.Map, Key: k, Val: v}} }
	fp := func(f float64) *float64 { return &f }
	ip := func(i int) *int { return &i }
	level := m.Prim(m.Int)
	level.V = &m.Validation{Min: fp(0), Max: fp(9)}
	name := str()
	name.V = &m.Validation{MinLen: ip(1), MaxLen: ip(12)}
	unit := str()
	dv := value.Str("ms")
	unit.Default = &dv
	event := &m.UserType{Name: "Event", Var: "sevent",
		Attr: obj(fld("seq", i64(), true), fld("name", name, true), fld("level", level, false), fld("unit", unit, false),
			fld("tags", arr(str()), false), fld("counts", mp(str(), i64()), false),
			fld("origin", obj(fld("host", str(), true), fld("port", m.Prim(m.Int), false)), false))}
	sample := &m.UserType{Name: "Sample", Var: "ssample",
		Attr: obj(fld("at", i64(), true), fld("value", m.Prim(m.Float64), true), fld("label", str(), false), fld("flags", arr(m.Prim(m.Boolean)), false))}
	vf := func(names ...string) []m.ViewField {
		var out []m.ViewField
		for _, n := range names {
			out = append(out, m.ViewField{Name: n})
		}
		return out
	}
	item := &m.UserType{Name: "Item", Var: "sitem", Result: true, Identifier: "application/vnd.streams.item",
		Attr:  obj(fld("id", i64(), true), fld("title", str(), true), fld("notes", str(), false)),
		Views: []*m.View{{Name: "default", Fields: vf("id", "title", "notes")}, {Name: "tiny", Fields: vf("id")}}}
	get := func(path string) []m.Route { return []m.Route{{Verb: "GET", Path: path}} }
	watch := &m.Method{Name: "watch", Streaming: "result",
		Payload: obj(fld("id", str(), true), fld("since", i64(), false), fld("tag", str(), false)),
		Result:  m.UserRef("Event"),
		HTTP:    &m.HTTPEndpoint{Routes: append(get("/streams/{id}/watch"), m.Route{Verb: "GET", Path: "/streams/watch/{id}"}), Path: []m.Mapping{{Attr: "id"}}, Query: []m.Mapping{{Attr: "since"}}, Headers: []m.Mapping{{Attr: "tag", Wire: "X-Tag"}}}}
	collect := &m.Method{Name: "collect", Streaming: "payload",
		Payload:          obj(fld("id", str(), true), fld("mode", str(), false)),
		StreamingPayload: m.UserRef("Sample"),
		Result:           obj(fld("count", i64(), true), fld("last", str(), false)),
		HTTP:             &m.HTTPEndpoint{Routes: get("/streams/{id}/collect"), Path: []m.Mapping{{Attr: "id"}}, Query: []m.Mapping{{Attr: "mode"}}}}
	chat := &m.Method{Name: "chat", Streaming: "bidirectional",
		Payload:          obj(fld("room", str(), true)),
		StreamingPayload: str(),
		Result:           str(),
		HTTP:             &m.HTTPEndpoint{Routes: get("/streams/chat/{room}"), Path: []m.Mapping{{Attr: "room"}}}}
	sums := &m.Method{Name: "sums", Streaming: "bidirectional",
		StreamingPayload: arr(i64()),
		Result:           i64(),
		HTTP:             &m.HTTPEndpoint{Routes: get("/streams/sums")}}
	relay := &m.Method{Name: "relay", Streaming: "bidirectional",
		Payload:          obj(fld("key", str(), false)),
		StreamingPayload: m.UserRef("Event"),
		Result:           m.UserRef("Sample"),
		HTTP:             &m.HTTPEndpoint{Routes: get("/streams/relay"), Headers: []m.Mapping{{Attr: "key", Wire: "X-Key"}}}}
	items := &m.Method{Name: "items", Streaming: "result",
		Payload: obj(fld("n", i64(), false)),
		Result:  m.UserRef("Item"),
		HTTP:    &m.HTTPEndpoint{Routes: get("/streams/items"), Query: []m.Mapping{{Attr: "n"}}}}
	ticks := &m.Method{Name: "ticks", Streaming: "result", Result: i64(), HTTP: &m.HTTPEndpoint{Routes: get("/streams/ticks")}}
	edits := &m.Method{Name: "edits", Streaming: "bidirectional", StreamingPayload: str(), Result: m.UserRef("Item"), HTTP: &m.HTTPEndpoint{Routes: get("/streams/edits")}}
	plain := &m.Method{Name: "plain", Payload: obj(fld("id", str(), true)), Result: obj(fld("ok", m.Prim(m.Boolean), true)),
		HTTP: &m.HTTPEndpoint{Routes: get("/streams/{id}/plain"), Path: []m.Mapping{{Attr: "id"}}}}
	return &m.Design{API: m.API{Name: "streams", Title: "Stream matrix"},
		Types:    []*m.UserType{event, sample, item},
		Services: []*m.Service{{Name: "streams", HasHTTP: true, Methods: []*m.Method{watch, collect, chat, sums, relay, items, ticks, edits, plain}}},
		Features: []string{"fixed-design:stream-matrix", "streaming-result", "streaming-payload", "streaming-bidirectional", "streamed-result-type-with-views"}}
}

// GRPCStreamMatrix is a fixed gRPC design with the four streaming kinds
// (unary, server streaming, client streaming, bidirectional): messages are
// user types with nested messages, arrays, maps and validations, a primitive
// streamed in both directions, and request metadata next to the streams.
func GRPCStreamMatrix() *m.Design {
	obj := func(fs ...*m.Field) *m.Attr { return &m.Attr{Type: &m.Type{Kind: m.Object, Fields: fs}} }
	tag := 0
	fld := func(n string, a *m.Attr, req bool) *m.Field {
		tag++
		return &m.Field{Name: n, Attr: a, Required: req, Tag: tag}
	}
	reset := func(start int) { tag = start }
	arr := func(e *m.Attr) *m.Attr { return &m.Attr{Type: &m.Type{Kind: m.Array, Elem: e}} }
	mp := func(k, v *m.Attr) *m.Attr { return &m.Attr{Type: &m.Type{Kind: m.Map, Key: k, Val: v}} }
	prim := m.Prim
	level := prim(m.Int32)
	level.V = &m.Validation{Min: fp(0), Max: fp(9)}
	name := prim(m.String)
	name.V = &m.Validation{MinLen: ip(1), MaxLen: ip(12)}
	reset(0)
	origin := &m.UserType{Name: "Origin", Var: "gorigin", Attr: obj(fld("host", prim(m.String), true), fld("port", prim(m.Int32), false))}
	reset(2)
	event := &m.UserType{Name: "Event", Var: "gevent", Attr: obj(fld("seq", prim(m.Int64), true), fld("name", name, true), fld("level", level, false),
		fld("tags", arr(prim(m.String)), false), fld("counts", mp(prim(m.String), prim(m.Int64)), false), fld("origin", m.UserRef("Origin"), false), fld("raw", prim(m.Bytes), false))}
	reset(0)
	sample := &m.UserType{Name: "Sample", Var: "gsample", Attr: obj(fld("at", prim(m.Int64), true), fld("value", prim(m.Float64), true), fld("label", prim(m.String), false), fld("flags", arr(prim(m.Boolean)), false))}
	reset(0)
	watch := &m.Method{Name: "watch", Streaming: "result", GRPC: &m.GRPCEndpoint{Metadata: []m.Mapping{{Attr: "token"}}},
		Payload: obj(fld("id", prim(m.String), true), fld("since", prim(m.Int64), false), fld("token", prim(m.String), false)), Result: m.UserRef("Event")}
	reset(0)
	collect := &m.Method{Name: "collect", Streaming: "payload", GRPC: &m.GRPCEndpoint{}, StreamingPayload: m.UserRef("Sample")}
	collect.Result = obj(fld("count", prim(m.Int64), true), fld("last", prim(m.String), false))
	relay := &m.Method{Name: "relay", Streaming: "bidirectional", GRPC: &m.GRPCEndpoint{}, StreamingPayload: m.UserRef("Event"), Result: m.UserRef("Sample")}
	echo := &m.Method{Name: "echo", Streaming: "bidirectional", GRPC: &m.GRPCEndpoint{}, StreamingPayload: prim(m.String), Result: prim(m.String)}
	ticks := &m.Method{Name: "ticks", Streaming: "result", GRPC: &m.GRPCEndpoint{}, Result: prim(m.Int64)}
	// streamed payloads with validations next to a result type with views (the
	// server-side Recv of these methods must still validate what it receives)
	reset(0)
	// (every required attribute is in every view: a required attribute outside the rendered view crashes the generated gRPC server, open finding)
	gitem := &m.UserType{Name: "Item", Var: "gitem", Result: true, Identifier: "application/vnd.grpcstreams.item",
		Attr:  obj(fld("id", prim(m.Int64), true), fld("title", prim(m.String), false), fld("notes", prim(m.String), false)),
		Views: []*m.View{{Name: "default", Fields: []m.ViewField{{Name: "id"}, {Name: "title"}, {Name: "notes"}}}, {Name: "tiny", Fields: []m.ViewField{{Name: "id"}}}}}
	review := &m.Method{Name: "review", Streaming: "bidirectional", GRPC: &m.GRPCEndpoint{}, StreamingPayload: m.UserRef("Event"), Result: m.UserRef("Item")}
	tally := &m.Method{Name: "tally", Streaming: "payload", GRPC: &m.GRPCEndpoint{}, StreamingPayload: m.UserRef("Event"), Result: m.UserRef("Item")}
	items := &m.Method{Name: "items", Streaming: "result", GRPC: &m.GRPCEndpoint{}, Result: m.UserRef("Item")}
	reset(0)
	unary := &m.Method{Name: "unary", GRPC: &m.GRPCEndpoint{}, Payload: obj(fld("e", m.UserRef("Event"), true))}
	reset(0)
	unary.Result = obj(fld("s", m.UserRef("Sample"), false))
	health := &m.Service{Name: "health", HasHTTP: true, Methods: []*m.Method{{Name: "ping", HTTP: &m.HTTPEndpoint{Routes: []m.Route{{Verb: "GET", Path: "/ping"}}}}}}
	return &m.Design{API: m.API{Name: "grpcstreams", Title: "gRPC stream matrix", Server: true},
		Types:    []*m.UserType{origin, event, sample, gitem},
		Services: []*m.Service{{Name: "grpcstreams", HasGRPC: true, Methods: []*m.Method{watch, collect, relay, echo, ticks, review, tally, items, unary}}, health},
		Features: []string{"fixed-design:grpc-stream-matrix", "grpc-server-streaming", "grpc-client-streaming", "grpc-bidirectional-streaming", "request-metadata"}}
}

// MapParamsMatrix is a fixed design about MapParams: every query string
// parameter of a request lands in one map attribute (or in the whole payload
// when it is a map), next to ordinary path, header and query mappings.
func MapParamsMatrix() *m.Design {
	obj := func(fs ...*m.Field) *m.Attr { return &m.Attr{Type: &m.Type{Kind: m.Object, Fields: fs}} }
	fld := func(n string, a *m.Attr, req bool) *m.Field { return &m.Field{Name: n, Attr: a, Required: req} }
	str := func() *m.Attr { return m.Prim(m.String) }
	arr := func(e *m.Attr) *m.Attr { return &m.Attr{Type: &m.Type{Kind: m.Array, Elem: e}} }
	mp := func(k, v *m.Attr) *m.Attr { return &m.Attr{Type: &m.Type{Kind: m.Map, Key: k, Val: v}} }
	ok := func() *m.Attr { return obj(fld("ok", m.Prim(m.Boolean), true)) }
	attr := &m.Method{Name: "attr", Payload: obj(fld("id", str(), true), fld("p", mp(str(), str()), false), fld("tag", str(), false)), Result: ok(),
		HTTP: &m.HTTPEndpoint{Routes: []m.Route{{Verb: "GET", Path: "/mapparams/attr/{id}"}}, Path: []m.Mapping{{Attr: "id"}}, Headers: []m.Mapping{{Attr: "tag", Wire: "X-Tag"}}, MapParams: "p"}}
	multi := &m.Method{Name: "multi", Payload: obj(fld("id", str(), true), fld("filters", mp(str(), arr(str())), false)), Result: ok(),
		HTTP: &m.HTTPEndpoint{Routes: []m.Route{{Verb: "GET", Path: "/mapparams/multi/{id}"}}, Path: []m.Mapping{{Attr: "id"}}, MapParams: "filters"}}
	// (MapParams() on a payload that is itself a map is left out: the generated client and server disagree on the key spelling, open finding)
	body := &m.Method{Name: "body", Payload: obj(fld("q", mp(str(), str()), false), fld("note", str(), false)), Result: ok(),
		HTTP: &m.HTTPEndpoint{Routes: []m.Route{{Verb: "POST", Path: "/mapparams/body"}}, MapParams: "q"}}
	// collection-typed parameters whose wire name differs from the attribute
	// name, required and optional (their Go representation does not depend
	// on requiredness, so a lost required flag still compiles); kept in this
	// small design so that nothing else can stop it from building
	i64 := func() *m.Attr { return m.Prim(m.Int64) }
	lists := &m.Method{Name: "lists", Payload: obj(fld("ids", arr(str()), true), fld("nums", arr(i64()), true), fld("opts", arr(str()), false), fld("hs", arr(str()), true), fld("ho", arr(i64()), false)), Result: ok(),
		HTTP: &m.HTTPEndpoint{Routes: []m.Route{{Verb: "GET", Path: "/mapparams/lists"}},
			Query:   []m.Mapping{{Attr: "ids", Wire: "id"}, {Attr: "nums", Wire: "n"}, {Attr: "opts", Wire: "o"}},
			Headers: []m.Mapping{{Attr: "hs", Wire: "X-Hs"}, {Attr: "ho", Wire: "X-Ho"}}}}
	// the body is one payload attribute, optional (a request without body is
	// fine) and required (it is not)
	optbody := &m.Method{Name: "optbody", Payload: obj(fld("q", str(), true), fld("filters", arr(str()), false)), Result: ok(),
		HTTP: &m.HTTPEndpoint{Routes: []m.Route{{Verb: "POST", Path: "/mapparams/optbody"}}, Query: []m.Mapping{{Attr: "q"}}, Body: &m.Body{Mode: "attr", Attr: "filters"}}}
	reqbody := &m.Method{Name: "reqbody", Payload: obj(fld("q", str(), true), fld("filters", arr(str()), true)), Result: ok(),
		HTTP: &m.HTTPEndpoint{Routes: []m.Route{{Verb: "POST", Path: "/mapparams/reqbody"}}, Query: []m.Mapping{{Attr: "q"}}, Body: &m.Body{Mode: "attr", Attr: "filters"}}}
	// a body object all of whose attributes declare a default: still a body the server insists on
	mdef, ldef := value.Str("fast"), value.Int(3)
	mode, level := str(), m.Prim(m.Int)
	mode.Default, level.Default = &mdef, &ldef
	alldefaults := &m.Method{Name: "alldefaults", Payload: obj(fld("mode", mode, false), fld("level", level, false)), Result: ok(),
		HTTP: &m.HTTPEndpoint{Routes: []m.Route{{Verb: "POST", Path: "/mapparams/alldefaults"}}}}
	return &m.Design{API: m.API{Name: "mapparams", Title: "MapParams matrix"},
		Services: []*m.Service{{Name: "mapparams", HasHTTP: true, Methods: []*m.Method{attr, multi, body, lists, optbody, reqbody, alldefaults}}},
		Features: []string{"fixed-design:map-params-matrix", "map-params", "renamed-required-collection-params", "body-is-an-optional-attribute", "body-of-defaulted-attributes-only"}}
}

// NestMatrix is a fixed design about collections nested three deep, in every
// order of array and map (the transform code goa generates for them uses
// loop variables and temporaries whose names depend on the nesting), as HTTP
// request and response bodies and as gRPC messages.
func NestMatrix() *m.Design {
	obj := func(fs ...*m.Field) *m.Attr { return &m.Attr{Type: &m.Type{Kind: m.Object, Fields: fs}} }
	tag := 0
	fld := func(n string, a *m.Attr) *m.Field { tag++; return &m.Field{Name: n, Attr: a, Tag: tag} }
	str, i64 := func() *m.Attr { return m.Prim(m.String) }, func() *m.Attr { return m.Prim(m.Int64) }
	arr := func(e *m.Attr) *m.Attr { return &m.Attr{Type: &m.Type{Kind: m.Array, Elem: e}} }
	mp := func(v *m.Attr) *m.Attr { return &m.Attr{Type: &m.Type{Kind: m.Map, Key: m.Prim(m.String), Val: v}} }
	deep := func() *m.Attr {
		tag = 0
		return obj(
			fld("mam", mp(arr(mp(i64())))),
			fld("ama", arr(mp(arr(str())))),
			fld("mma", mp(mp(arr(i64())))),
			fld("aam", arr(arr(mp(str())))),
			fld("maa", mp(arr(arr(i64())))),
			fld("amm", arr(mp(mp(str())))),
			fld("note", str()))
	}
	http := &m.Method{Name: "deep", Payload: deep(), Result: deep(), HTTP: &m.HTTPEndpoint{Routes: []m.Route{{Verb: "POST", Path: "/nest/deep"}}}}
	grpc := &m.Method{Name: "deepg", Payload: deep(), Result: deep(), GRPC: &m.GRPCEndpoint{}}
	return &m.Design{API: m.API{Name: "nest", Title: "Nested collections matrix", Server: true},
		Services: []*m.Service{{Name: "nest", HasHTTP: true, Methods: []*m.Method{http}}, {Name: "nestg", HasGRPC: true, Methods: []*m.Method{grpc}}},
		Features: []string{"fixed-design:nest-matrix", "collections-nested-three-deep"}}
}

// SecurityMatrix is a fixed design about where credentials travel: the
// implicit Authorization header next to an explicit request body that does
// not hold the token, a token header spelled in lower case, a custom token
// header, API keys in query and header, alternative requirements, Basic
// credentials, inherited and cancelled requirements.
func SecurityMatrix() *m.Design {
	obj := func(fs ...*m.Field) *m.Attr { return &m.Attr{Type: &m.Type{Kind: m.Object, Fields: fs}} }
	fld := func(n string, a *m.Attr, req bool) *m.Field { return &m.Field{Name: n, Attr: a, Required: req} }
	str := func() *m.Attr { return m.Prim(m.String) }
	thing := &m.UserType{Name: "Thing", Var: "sthing", Attr: obj(fld("x", str(), true), fld("n", m.Prim(m.Int), false))}
	schemes := []*m.Scheme{
		{Kind: "jwt", Name: "jwt", Var: "sjwt", Scopes: []string{"api:read", "api:write"}},
		{Kind: "oauth2", Name: "oauth", Var: "soauth", Scopes: []string{"api:read"}},
		{Kind: "apikey", Name: "key", Var: "skey"},
		{Kind: "basic", Name: "basic", Var: "sbasic"},
	}
	jwtRead := m.Requirement{Schemes: []string{"jwt"}, Scopes: []string{"api:read"}}
	store := &m.Method{Name: "store", Security: []m.Requirement{{Schemes: []string{"jwt"}, Scopes: []string{"api:write"}}},
		Creds: []m.Cred{{Scheme: "jwt", Kind: "token", Attr: "token"}}, ImplicitAuth: []string{"token"},
		Payload: obj(fld("token", str(), true), fld("name", str(), true), fld("item", m.UserRef("Thing"), true)),
		HTTP: &m.HTTPEndpoint{Routes: []m.Route{{Verb: "PUT", Path: "/sec/items/{name}"}}, Path: []m.Mapping{{Attr: "name"}},
			Headers: []m.Mapping{{Attr: "token", Wire: "Authorization"}}, Body: &m.Body{Mode: "attr", Attr: "item"}}}
	fetch := &m.Method{Name: "fetch", Security: []m.Requirement{{Schemes: []string{"oauth"}, Scopes: []string{"api:read"}}},
		Creds:   []m.Cred{{Scheme: "oauth", Kind: "accesstoken", Attr: "access"}},
		Payload: obj(fld("access", str(), true), fld("id", str(), true)),
		HTTP: &m.HTTPEndpoint{Routes: []m.Route{{Verb: "GET", Path: "/sec/items/{id}"}}, Path: []m.Mapping{{Attr: "id"}},
			Headers: []m.Mapping{{Attr: "access", Wire: "authorization"}}}}
	rename := &m.Method{Name: "rename", Security: []m.Requirement{jwtRead, {Schemes: []string{"key"}}},
		Creds:   []m.Cred{{Scheme: "jwt", Kind: "token", Attr: "tok"}, {Scheme: "key", Kind: "apikey", Attr: "k"}},
		Payload: obj(fld("tok", str(), false), fld("k", str(), false), fld("to", str(), true)),
		HTTP: &m.HTTPEndpoint{Routes: []m.Route{{Verb: "POST", Path: "/sec/rename"}},
			Headers: []m.Mapping{{Attr: "tok", Wire: "X-Token"}}, Query: []m.Mapping{{Attr: "k", Wire: "api_key"}}}}
	both := &m.Method{Name: "both", Security: []m.Requirement{{Schemes: []string{"jwt", "key"}, Scopes: []string{"api:read"}}},
		Creds:   []m.Cred{{Scheme: "jwt", Kind: "token", Attr: "tok"}, {Scheme: "key", Kind: "apikey", Attr: "k"}},
		Payload: obj(fld("tok", str(), true), fld("k", str(), true)),
		HTTP: &m.HTTPEndpoint{Routes: []m.Route{{Verb: "GET", Path: "/sec/both"}},
			Headers: []m.Mapping{{Attr: "tok", Wire: "Authorization"}, {Attr: "k", Wire: "X-Api-Key"}}}, ImplicitAuth: []string{"tok"}}
	login := &m.Method{Name: "login", Security: []m.Requirement{{Schemes: []string{"basic"}}},
		Creds:   []m.Cred{{Scheme: "basic", Kind: "username", Attr: "user"}, {Scheme: "basic", Kind: "password", Attr: "pass"}},
		Payload: obj(fld("user", str(), true), fld("pass", str(), true)),
		HTTP:    &m.HTTPEndpoint{Routes: []m.Route{{Verb: "POST", Path: "/sec/login"}}}}
	inherited := &m.Method{Name: "inherited", Creds: []m.Cred{{Scheme: "jwt", Kind: "token", Attr: "token"}}, ImplicitAuth: []string{"token"},
		Payload: obj(fld("token", str(), true), fld("q", str(), false)),
		HTTP:    &m.HTTPEndpoint{Routes: []m.Route{{Verb: "GET", Path: "/sec/inherited"}}, Headers: []m.Mapping{{Attr: "token", Wire: "Authorization"}}, Query: []m.Mapping{{Attr: "q"}}}}
	// a requirement with two required scopes, next to an alternative one
	purge := &m.Method{Name: "purge", Security: []m.Requirement{{Schemes: []string{"jwt"}, Scopes: []string{"api:read", "api:write"}}, {Schemes: []string{"key"}}},
		Creds:   []m.Cred{{Scheme: "jwt", Kind: "token", Attr: "tok"}, {Scheme: "key", Kind: "apikey", Attr: "k"}},
		Payload: obj(fld("tok", str(), false), fld("k", str(), false), fld("what", str(), true)),
		HTTP: &m.HTTPEndpoint{Routes: []m.Route{{Verb: "POST", Path: "/sec/purge"}},
			Headers: []m.Mapping{{Attr: "tok", Wire: "X-Token"}}, Query: []m.Mapping{{Attr: "k", Wire: "api_key"}}}}
	// two different schemes left to the implicit Authorization header, as alternatives
	either := &m.Method{Name: "either", Security: []m.Requirement{jwtRead, {Schemes: []string{"oauth"}, Scopes: []string{"api:read"}}},
		Creds:   []m.Cred{{Scheme: "jwt", Kind: "token", Attr: "tok"}, {Scheme: "oauth", Kind: "accesstoken", Attr: "acc"}},
		Payload: obj(fld("tok", str(), false), fld("acc", str(), false), fld("q", str(), false)), ImplicitAuth: []string{"tok", "acc"},
		HTTP: &m.HTTPEndpoint{Routes: []m.Route{{Verb: "GET", Path: "/sec/either"}}, Query: []m.Mapping{{Attr: "q"}},
			Headers: []m.Mapping{{Attr: "tok", Wire: "Authorization"}, {Attr: "acc", Wire: "Authorization"}}}}
	open := &m.Method{Name: "open", NoSecurity: true, Payload: obj(fld("q", str(), false)),
		HTTP: &m.HTTPEndpoint{Routes: []m.Route{{Verb: "GET", Path: "/sec/open"}}, Query: []m.Mapping{{Attr: "q"}}}}
	return &m.Design{API: m.API{Name: "secmatrix", Title: "Security matrix"},
		Types: []*m.UserType{thing}, Schemes: schemes,
		Services: []*m.Service{{Name: "secmatrix", HasHTTP: true, Security: []m.Requirement{jwtRead}, Methods: []*m.Method{store, fetch, rename, both, login, inherited, purge, either, open}}},
		Features: []string{"fixed-design:security-matrix", "implicit-authorization", "explicit-body-without-credential", "lower-case-authorization-header", "alternative-requirements", "two-schemes-one-requirement", "inherited-security", "no-security", "two-schemes-share-the-implicit-authorization-header"}}
}

// RecursiveMatrix is a fixed HTTP design about types that reach themselves:
// through an attribute, an array element, a map element, an array of maps,
// through a second type (mutual recursion), and a recursive result type, as
// request and response bodies. (Recursion through a map key or together with a
// union, and any recursion over gRPC, are open findings with probes of their
// own.)
func RecursiveMatrix() *m.Design {
	obj := func(fs ...*m.Field) *m.Attr { return &m.Attr{Type: &m.Type{Kind: m.Object, Fields: fs}} }
	fld := func(n string, a *m.Attr, req bool) *m.Field { return &m.Field{Name: n, Attr: a, Required: req} }
	str := func() *m.Attr { return m.Prim(m.String) }
	arr := func(e *m.Attr) *m.Attr { return &m.Attr{Type: &m.Type{Kind: m.Array, Elem: e}} }
	mp := func(v *m.Attr) *m.Attr { return &m.Attr{Type: &m.Type{Kind: m.Map, Key: m.Prim(m.String), Val: v}} }
	tree := &m.UserType{Name: "Tree", Var: "rtree", Attr: obj(fld("name", str(), true), fld("parent", m.UserRef("Tree"), false), fld("kids", arr(m.UserRef("Tree")), false),
		fld("by_name", mp(m.UserRef("Tree")), false), fld("groups", arr(mp(m.UserRef("Tree"))), false))}
	a := &m.UserType{Name: "Alpha", Var: "ralpha", Attr: obj(fld("label", str(), false), fld("beta", m.UserRef("Beta"), false))}
	b := &m.UserType{Name: "Beta", Var: "rbeta", Attr: obj(fld("alphas", arr(m.UserRef("Alpha")), false), fld("index", mp(m.UserRef("Alpha")), false))}
	node := &m.UserType{Name: "Node", Var: "rnode", Result: true, Identifier: "application/vnd.rec.node",
		Attr:  obj(fld("name", str(), true), fld("kids", arr(m.UserRef("Node")), false)),
		Views: []*m.View{{Name: "default", Fields: []m.ViewField{{Name: "name"}, {Name: "kids"}}}}}
	put := &m.Method{Name: "put", Payload: m.UserRef("Tree"), Result: m.UserRef("Tree"), HTTP: &m.HTTPEndpoint{Routes: []m.Route{{Verb: "POST", Path: "/rec/tree"}}}}
	mutual := &m.Method{Name: "mutual", Payload: m.UserRef("Alpha"), Result: m.UserRef("Beta"), HTTP: &m.HTTPEndpoint{Routes: []m.Route{{Verb: "POST", Path: "/rec/mutual"}}}}
	get := &m.Method{Name: "get", Payload: obj(fld("id", str(), true)), Result: m.UserRef("Node"),
		HTTP: &m.HTTPEndpoint{Routes: []m.Route{{Verb: "GET", Path: "/rec/node/{id}"}}, Path: []m.Mapping{{Attr: "id"}}}}
	return &m.Design{API: m.API{Name: "recmatrix", Title: "Recursive types matrix"},
		Types:    []*m.UserType{node, tree, a, b},
		Services: []*m.Service{{Name: "recmatrix", HasHTTP: true, Methods: []*m.Method{put, mutual, get}}},
		Features: []string{"fixed-design:recursive-matrix", "recursive-through-array", "recursive-through-map-element", "mutually-recursive-types", "recursive-result-type"}}
}

// WildcardMatrix is a fixed design about trailing wildcards: the same
// catch-all location mounted for several verbs under different wildcard
// names (the router only knows such a segment as "*", the name is kept in a
// table of the muxer), next to a wildcard after a parameter and one under
// another prefix.
func WildcardMatrix() *m.Design {
	obj := func(fs ...*m.Field) *m.Attr { return &m.Attr{Type: &m.Type{Kind: m.Object, Fields: fs}} }
	fld := func(n string, a *m.Attr, req bool) *m.Field { return &m.Field{Name: n, Attr: a, Required: req} }
	str := func() *m.Attr { return m.Prim(m.String) }
	ok := func() *m.Attr { return obj(fld("ok", m.Prim(m.Boolean), true)) }
	fetch := &m.Method{Name: "fetch", Payload: obj(fld("path", str(), true), fld("rev", str(), false)), Result: ok(),
		HTTP: &m.HTTPEndpoint{Routes: []m.Route{{Verb: "GET", Path: "/files/{*path}"}}, Path: []m.Mapping{{Attr: "path"}}, Query: []m.Mapping{{Attr: "rev"}}}}
	store := &m.Method{Name: "store", Payload: obj(fld("name", str(), true), fld("content", str(), false)), Result: ok(),
		HTTP: &m.HTTPEndpoint{Routes: []m.Route{{Verb: "PUT", Path: "/files/{*name}"}}, Path: []m.Mapping{{Attr: "name"}}}}
	remove := &m.Method{Name: "remove", Payload: obj(fld("target", str(), true)), Result: ok(),
		HTTP: &m.HTTPEndpoint{Routes: []m.Route{{Verb: "DELETE", Path: "/files/{*target}"}}, Path: []m.Mapping{{Attr: "target"}}}}
	scoped := &m.Method{Name: "scoped", Payload: obj(fld("owner", str(), true), fld("rest", str(), true)), Result: ok(),
		HTTP: &m.HTTPEndpoint{Routes: []m.Route{{Verb: "GET", Path: "/owners/{owner}/{*rest}"}}, Path: []m.Mapping{{Attr: "owner"}, {Attr: "rest"}}}}
	other := &m.Method{Name: "other", Payload: obj(fld("path", str(), true)), Result: ok(),
		HTTP: &m.HTTPEndpoint{Routes: []m.Route{{Verb: "GET", Path: "/blobs/{*path}"}}, Path: []m.Mapping{{Attr: "path"}}}}
	return &m.Design{API: m.API{Name: "wildcards", Title: "Wildcard matrix"},
		Services: []*m.Service{{Name: "wildcards", HasHTTP: true, Methods: []*m.Method{fetch, store, remove, scoped, other}}},
		Features: []string{"fixed-design:wildcard-matrix", "wildcard-route", "same-wildcard-location-several-verbs"}}
}

// InheritMatrix is a fixed design about Extend and Reference: user types that
// extend a base type (also through a chain), inline payloads and results that
// extend it, user types, result types and inline payloads whose attributes are
// bare Attribute("name") calls filled in from a referenced type. Inherited
// attributes (with their validations, defaults and requiredness) travel in
// every request location and in response bodies, headers and views. The model
// lists the inherited attributes in the inheriting object (Field.Inherit), so
// every oracle judges the effective type while the DSL only says Extend /
// Reference.
func InheritMatrix() *m.Design {
	obj := func(fs ...*m.Field) *m.Attr { return &m.Attr{Type: &m.Type{Kind: m.Object, Fields: fs}} }
	fld := func(n string, a *m.Attr, req bool) *m.Field { return &m.Field{Name: n, Attr: a, Required: req} }
	arr := func(e *m.Attr) *m.Attr { return &m.Attr{Type: &m.Type{Kind: m.Array, Elem: e}} }
	vf := func(names ...string) []m.ViewField {
		var out []m.ViewField
		for _, n := range names {
			out = append(out, m.ViewField{Name: n})
		}
		return out
	}
	// the attributes of the base type, built afresh for every type that lists them
	name := func() *m.Attr { a := m.Prim(m.String); a.V = &m.Validation{MinLen: ip(3), MaxLen: ip(20)}; return a }
	vintage := func() *m.Attr { a := m.Prim(m.Int32); a.V = &m.Validation{Min: fp(1970), Max: fp(2100)}; return a }
	rating := func() *m.Attr {
		a := m.Prim(m.Int)
		a.V = &m.Validation{Min: fp(1), Max: fp(5)}
		d := value.Int(3)
		a.Default = &d
		return a
	}
	notes := func() *m.Attr { e := m.Prim(m.String); e.V = &m.Validation{MaxLen: ip(8)}; return arr(e) }
	baseFields := func(how string) []*m.Field {
		fs := []*m.Field{fld("name", name(), true), fld("vintage", vintage(), false), fld("rating", rating(), false), fld("notes", notes(), false)}
		for _, f := range fs {
			f.Inherit = how
		}
		return fs
	}
	with := func(own []*m.Field, inherited []*m.Field) *m.Attr { return obj(append(own, inherited...)...) }
	region := func() *m.Attr {
		a := m.Prim(m.String)
		a.V = &m.Validation{Enum: []value.V{value.Str("north"), value.Str("south"), value.Str("east")}}
		return a
	}
	base := &m.UserType{Name: "IBase", Var: "vibase", Attr: obj(baseFields("")...)}
	mid := &m.UserType{Name: "IMid", Var: "vimid", Extend: "IBase", Attr: with([]*m.Field{fld("region", region(), false)}, baseFields("extend"))}
	// a chain: ILeaf extends IMid which extends IBase
	leafInherited := append([]*m.Field{{Name: "region", Attr: region(), Inherit: "extend"}}, baseFields("extend")...)
	leaf := &m.UserType{Name: "ILeaf", Var: "vileaf", Extend: "IMid", Attr: with([]*m.Field{fld("id", m.Prim(m.String), true), fld("stock", m.Prim(m.UInt32), false)}, leafInherited)}
	// Reference: only the attributes named again exist; vintage becomes required here, rating keeps its default
	refFields := func() []*m.Field {
		n, v, r := fld("name", name(), true), fld("vintage", vintage(), true), fld("rating", rating(), false)
		n.Inherit, v.Inherit, r.Inherit = "reference", "reference", "reference"
		return []*m.Field{n, v, r}
	}
	ref := &m.UserType{Name: "IRef", Var: "viref", Reference: "IBase", Attr: with([]*m.Field{fld("id", m.Prim(m.UInt64), true)}, refFields())}
	res := &m.UserType{Name: "IResult", Var: "viresult", Result: true, Identifier: "application/vnd.inherit.result", Reference: "IBase",
		Attr:  with([]*m.Field{fld("id", m.Prim(m.UInt64), true)}, refFields()),
		Views: []*m.View{{Name: "default", Fields: vf("id", "name", "vintage", "rating")}, {Name: "tiny", Fields: vf("id", "name")}}}
	ext := &m.UserType{Name: "IExtResult", Var: "viextresult", Result: true, Identifier: "application/vnd.inherit.ext", Extend: "IBase",
		Attr:  with([]*m.Field{fld("href", m.Prim(m.String), true)}, baseFields("extend")),
		Views: []*m.View{{Name: "default", Fields: vf("href", "name", "vintage", "rating", "notes")}, {Name: "link", Fields: vf("href", "name")}}}

	create := &m.Method{Name: "create", Payload: m.UserRef("IMid"), Result: m.UserRef("IMid"),
		HTTP: &m.HTTPEndpoint{Routes: []m.Route{{Verb: "POST", Path: "/inherit/create"}}}}
	update := &m.Method{Name: "update", Payload: m.UserRef("ILeaf"), Result: m.UserRef("ILeaf"),
		HTTP: &m.HTTPEndpoint{Routes: []m.Route{{Verb: "PUT", Path: "/inherit/leaf/{id}"}}, Path: []m.Mapping{{Attr: "id"}},
			Query: []m.Mapping{{Attr: "region"}, {Attr: "vintage", Wire: "v"}}, Headers: []m.Mapping{{Attr: "rating", Wire: "X-Rating"}}}}
	inPayload := with([]*m.Field{fld("tenant", m.Prim(m.String), true), fld("flag", m.Prim(m.Boolean), false)}, baseFields("extend"))
	inPayload.Type.Extend = "IBase"
	inResult := with([]*m.Field{fld("ok", m.Prim(m.Boolean), true)}, baseFields("extend"))
	inResult.Type.Extend = "IBase"
	inline := &m.Method{Name: "inline", Payload: inPayload, Result: inResult,
		HTTP: &m.HTTPEndpoint{Routes: []m.Route{{Verb: "POST", Path: "/inherit/inline/{tenant}"}}, Path: []m.Mapping{{Attr: "tenant"}},
			Query: []m.Mapping{{Attr: "flag"}, {Attr: "vintage"}}, Headers: []m.Mapping{{Attr: "name", Wire: "X-Name"}}}}
	byref := &m.Method{Name: "byref", Payload: m.UserRef("IRef"), Result: m.UserRef("IResult"),
		HTTP: &m.HTTPEndpoint{Routes: []m.Route{{Verb: "POST", Path: "/inherit/byref"}}, Query: []m.Mapping{{Attr: "id"}}}}
	show := &m.Method{Name: "show", Payload: obj(fld("id", m.Prim(m.String), true)), Result: m.UserRef("IExtResult"),
		HTTP: &m.HTTPEndpoint{Routes: []m.Route{{Verb: "GET", Path: "/inherit/show/{id}"}}, Path: []m.Mapping{{Attr: "id"}}}}
	n2, nt := fld("name", name(), true), fld("notes", notes(), false)
	n2.Inherit, nt.Inherit = "reference", "reference"
	irPayload := obj(n2, nt, fld("extra", m.Prim(m.Int), false))
	irPayload.Type.Reference = "IBase"
	inlineref := &m.Method{Name: "inlineref", Payload: irPayload, Result: obj(fld("ok", m.Prim(m.Boolean), true)),
		HTTP: &m.HTTPEndpoint{Routes: []m.Route{{Verb: "POST", Path: "/inherit/inlineref"}}, Headers: []m.Mapping{{Attr: "name", Wire: "X-Name"}}}}
	return &m.Design{API: m.API{Name: "inherit", Title: "Extend / Reference matrix"},
		Types:    []*m.UserType{base, mid, leaf, ref, res, ext},
		Services: []*m.Service{{Name: "inherit", HasHTTP: true, Methods: []*m.Method{create, update, inline, byref, show, inlineref}}},
		Features: []string{"fixed-design:inherit-matrix", "extend", "extend-chain", "extend-inline-payload", "reference", "reference-result-type", "reference-inline-payload"}}
}

// GetBodyMatrix is a fixed design whose GET and DELETE endpoints leave payload
// attributes to the request body (goa accepts it; search endpoints are written
// that way): the whole body object, an explicit Body("attr"), required and
// optional, next to a POST control.
func GetBodyMatrix() *m.Design {
	obj := func(fs ...*m.Field) *m.Attr { return &m.Attr{Type: &m.Type{Kind: m.Object, Fields: fs}} }
	fld := func(n string, a *m.Attr, req bool) *m.Field { return &m.Field{Name: n, Attr: a, Required: req} }
	str := func() *m.Attr { return m.Prim(m.String) }
	arr := func(e *m.Attr) *m.Attr { return &m.Attr{Type: &m.Type{Kind: m.Array, Elem: e}} }
	ok := func() *m.Attr { return obj(fld("ok", m.Prim(m.Boolean), true)) }
	payload := func() *m.Attr {
		return obj(fld("q", str(), true), fld("limit", m.Prim(m.Int), false), fld("terms", arr(str()), true), fld("exact", m.Prim(m.Boolean), false))
	}
	var methods []*m.Method
	for _, v := range []string{"GET", "DELETE", "POST"} {
		lv := strings.ToLower(v)
		methods = append(methods,
			&m.Method{Name: lv + "_search", Payload: payload(), Result: ok(),
				HTTP: &m.HTTPEndpoint{Routes: []m.Route{{Verb: v, Path: "/getbody/" + lv + "/search"}}, Query: []m.Mapping{{Attr: "q"}, {Attr: "limit"}}}},
			&m.Method{Name: lv + "_terms", Payload: payload(), Result: ok(),
				HTTP: &m.HTTPEndpoint{Routes: []m.Route{{Verb: v, Path: "/getbody/" + lv + "/terms"}}, Query: []m.Mapping{{Attr: "q"}, {Attr: "limit"}, {Attr: "exact"}}, Body: &m.Body{Mode: "attr", Attr: "terms"}}},
			&m.Method{Name: lv + "_filters", Payload: obj(fld("q", str(), true), fld("filters", arr(str()), false)), Result: ok(),
				HTTP: &m.HTTPEndpoint{Routes: []m.Route{{Verb: v, Path: "/getbody/" + lv + "/filters"}}, Query: []m.Mapping{{Attr: "q"}}, Body: &m.Body{Mode: "attr", Attr: "filters"}}})
	}
	return &m.Design{API: m.API{Name: "getbody", Title: "GET body matrix"},
		Services: []*m.Service{{Name: "getbody", HasHTTP: true, Methods: methods}},
		Features: []string{"fixed-design:get-body-matrix", "body-on-GET-and-DELETE", "explicit-body-attribute"}}
}

// MultipartMatrix is a fixed design whose endpoints take multipart requests
// (MultipartRequest): an inline payload, a user type payload with nested
// types, and a payload with attributes in the path, query and a header next to
// the multipart body. The generated code takes the part encoders and decoders
// from the user; C01 compiles the servers, clients, CLI and example stubs.
func MultipartMatrix() *m.Design {
	obj := func(fs ...*m.Field) *m.Attr { return &m.Attr{Type: &m.Type{Kind: m.Object, Fields: fs}} }
	fld := func(n string, a *m.Attr, req bool) *m.Field { return &m.Field{Name: n, Attr: a, Required: req} }
	str := func() *m.Attr { return m.Prim(m.String) }
	arr := func(e *m.Attr) *m.Attr { return &m.Attr{Type: &m.Type{Kind: m.Array, Elem: e}} }
	ok := func() *m.Attr { return obj(fld("ok", m.Prim(m.Boolean), true)) }
	part := &m.UserType{Name: "MPart", Var: "vmpart", Attr: obj(fld("name", str(), true), fld("data", m.Prim(m.Bytes), false))}
	doc := &m.UserType{Name: "MDoc", Var: "vmdoc", Attr: obj(fld("title", str(), true), fld("parts", arr(m.UserRef("MPart")), false), fld("cover", m.UserRef("MPart"), false), fld("labels", &m.Attr{Type: &m.Type{Kind: m.Map, Key: str(), Val: str()}}, false))}
	inline := &m.Method{Name: "inline", Payload: obj(fld("title", str(), true), fld("file", m.Prim(m.Bytes), true), fld("tags", arr(str()), false), fld("size", m.Prim(m.Int64), false)), Result: ok(),
		HTTP: &m.HTTPEndpoint{Routes: []m.Route{{Verb: "POST", Path: "/multipart/inline"}}, Multipart: true}}
	user := &m.Method{Name: "user", Payload: m.UserRef("MDoc"), Result: m.UserRef("MDoc"),
		HTTP: &m.HTTPEndpoint{Routes: []m.Route{{Verb: "POST", Path: "/multipart/user"}}, Multipart: true}}
	mixed := &m.Method{Name: "mixed", Payload: obj(fld("id", str(), true), fld("rev", m.Prim(m.Int), false), fld("token", str(), false), fld("file", m.Prim(m.Bytes), true), fld("note", str(), false)), Result: ok(),
		HTTP: &m.HTTPEndpoint{Routes: []m.Route{{Verb: "PUT", Path: "/multipart/mixed/{id}"}}, Path: []m.Mapping{{Attr: "id"}}, Query: []m.Mapping{{Attr: "rev"}}, Headers: []m.Mapping{{Attr: "token", Wire: "X-Token"}}, Multipart: true}}
	return &m.Design{API: m.API{Name: "multipartmatrix", Title: "Multipart matrix", Server: true},
		Types:    []*m.UserType{part, doc},
		Services: []*m.Service{{Name: "uploads", HasHTTP: true, Methods: []*m.Method{inline, user, mixed}}},
		Features: []string{"fixed-design:multipart-matrix", "multipart-request"}}
}

// RespCookieMatrix is a fixed design whose responses set several cookies at
// once (four in one response, three next to two headers in another, two in a
// tagged response): anything that treats "the" cookie of a response as one
// thing - in the encoders, the client or the documents - shows here.
func RespCookieMatrix() *m.Design {
	obj := func(fs ...*m.Field) *m.Attr { return &m.Attr{Type: &m.Type{Kind: m.Object, Fields: fs}} }
	fld := func(n string, a *m.Attr, req bool) *m.Field { return &m.Field{Name: n, Attr: a, Required: req} }
	str := func() *m.Attr { return m.Prim(m.String) }
	four := &m.Method{Name: "four", Result: obj(fld("sid", str(), true), fld("lang", str(), false), fld("theme", str(), false), fld("visits", str(), false), fld("note", str(), false)),
		HTTP: &m.HTTPEndpoint{Routes: []m.Route{{Verb: "GET", Path: "/cookies/four"}},
			Responses: []*m.Response{{Status: 200, Cookies: []m.Mapping{{Attr: "sid", Wire: "SID"}, {Attr: "lang"}, {Attr: "theme", Wire: "ui-theme"}, {Attr: "visits", Wire: "n"}}}}}}
	mixed := &m.Method{Name: "mixed", Result: obj(fld("a", str(), true), fld("b", str(), true), fld("c", str(), false), fld("etag", str(), false), fld("region", str(), false), fld("body", str(), false)),
		HTTP: &m.HTTPEndpoint{Routes: []m.Route{{Verb: "GET", Path: "/cookies/mixed"}},
			Responses: []*m.Response{{Status: 200, Cookies: []m.Mapping{{Attr: "a", Wire: "ca"}, {Attr: "b", Wire: "cb"}, {Attr: "c", Wire: "cc"}}, Headers: []m.Mapping{{Attr: "etag", Wire: "ETag"}, {Attr: "region", Wire: "X-Region"}}}}}}
	tagged := &m.Method{Name: "tagged", Result: obj(fld("kind", str(), true), fld("x", str(), false), fld("y", str(), false), fld("z", str(), false)),
		HTTP: &m.HTTPEndpoint{Routes: []m.Route{{Verb: "GET", Path: "/cookies/tagged"}},
			Responses: []*m.Response{{Status: 202, TagName: "kind", TagValue: "queued", Cookies: []m.Mapping{{Attr: "x", Wire: "cx"}, {Attr: "y", Wire: "cy"}}},
				{Status: 200, Cookies: []m.Mapping{{Attr: "z", Wire: "cz"}}}}}}
	return &m.Design{API: m.API{Name: "respcookies", Title: "Response cookie matrix"},
		Services: []*m.Service{{Name: "respcookies", HasHTTP: true, Methods: []*m.Method{four, mixed, tagged}}},
		Features: []string{"fixed-design:response-cookie-matrix", "several-response-cookies"}}
}
