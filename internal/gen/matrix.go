package gen

import (
	m "verif/internal/model"
	"verif/internal/value"
)

// ParamMatrix is a fixed design that crosses every parameter location
// (path, query, header, cookie; response header, response cookie) with
// {required, optional, defaulted} and {wire name = attribute name, renamed}.
// Random designs reach each cell only now and then; checks that compare
// per-parameter facts (location, name, required flag, value) add it to every
// run so that each cell is exercised at least once.
func ParamMatrix() *m.Design {
	str := func() *m.Attr { return m.Prim(m.String) }
	def := func(v string) *m.Attr { a := m.Prim(m.String); x := value.Str(v); a.Default = &x; return a }
	obj := func(fs ...*m.Field) *m.Attr { return &m.Attr{Type: &m.Type{Kind: m.Object, Fields: fs}} }
	fld := func(n string, a *m.Attr, req bool) *m.Field { return &m.Field{Name: n, Attr: a, Required: req} }

	var reqFields []*m.Field
	h := &m.HTTPEndpoint{Routes: []m.Route{{Verb: "POST", Path: "/matrix/{p_same}/{p_two}"}}}
	reqFields = append(reqFields, fld("p_same", str(), true), fld("p_two", str(), true))
	h.Path = []m.Mapping{{Attr: "p_same"}, {Attr: "p_two"}}
	for _, loc := range []string{"q", "h", "c"} {
		for _, kind := range []string{"req", "opt", "def"} {
			for _, ren := range []bool{false, true} {
				name := loc + "_" + kind
				wire := ""
				if ren {
					name += "_ren"
					wire = map[string]string{"q": "Q-", "h": "X-Hdr-", "c": "ck"}[loc] + kind
				}
				a := str()
				if kind == "def" {
					a = def("dflt")
				}
				reqFields = append(reqFields, fld(name, a, kind == "req"))
				mp := m.Mapping{Attr: name, Wire: wire}
				switch loc {
				case "q":
					h.Query = append(h.Query, mp)
				case "h":
					h.Headers = append(h.Headers, mp)
				case "c":
					h.Cookies = append(h.Cookies, mp)
				}
			}
		}
	}
	reqFields = append(reqFields, fld("body_req", str(), true), fld("body_opt", str(), false))

	var resFields []*m.Field
	resp := &m.Response{Status: 200}
	for _, loc := range []string{"h", "c"} {
		for _, kind := range []string{"req", "opt", "def"} {
			for _, ren := range []bool{false, true} {
				name := "r" + loc + "_" + kind
				wire := ""
				if ren {
					name += "_ren"
					wire = map[string]string{"h": "X-Res-", "c": "rck"}[loc] + kind
				}
				a := str()
				if kind == "def" {
					a = def("rdflt")
				}
				resFields = append(resFields, fld(name, a, kind == "req"))
				mp := m.Mapping{Attr: name, Wire: wire}
				if loc == "h" {
					resp.Headers = append(resp.Headers, mp)
				} else {
					resp.Cookies = append(resp.Cookies, mp)
				}
			}
		}
	}
	resFields = append(resFields, fld("rbody_req", str(), true), fld("rbody_opt", str(), false))
	h.Responses = []*m.Response{resp}

	meth := &m.Method{Name: "cross", Payload: obj(reqFields...), Result: obj(resFields...), HTTP: h}

	// typed parameters: non-string primitives and arrays in query and header
	i64 := func() *m.Attr { return m.Prim(m.Int64) }
	arr := func(e *m.Attr) *m.Attr { return &m.Attr{Type: &m.Type{Kind: m.Array, Elem: e}} }
	th := &m.HTTPEndpoint{Routes: []m.Route{{Verb: "GET", Path: "/typed/{id}"}},
		Path:    []m.Mapping{{Attr: "id"}},
		Query:   []m.Mapping{{Attr: "n_req", Wire: "n"}, {Attr: "n_opt"}, {Attr: "flag"}, {Attr: "list_req", Wire: "l"}, {Attr: "list_opt"}},
		Headers: []m.Mapping{{Attr: "hn_req", Wire: "X-N"}, {Attr: "hlist", Wire: "X-List"}}}
	typed := &m.Method{Name: "typed", Payload: obj(
		fld("id", m.Prim(m.UInt32), true), fld("n_req", i64(), true), fld("n_opt", i64(), false), fld("flag", m.Prim(m.Boolean), false),
		fld("list_req", arr(m.Prim(m.String)), true), fld("list_opt", arr(i64()), false), fld("hn_req", m.Prim(m.Float64), true), fld("hlist", arr(m.Prim(m.String)), false),
	), HTTP: th}

	// small methods: few parameters each, so that single-fault mutants reach every one of them quickly
	small := func(name, verb string, h *m.HTTPEndpoint, fs ...*m.Field) *m.Method {
		h.Routes = []m.Route{{Verb: verb, Path: "/" + name}}
		return &m.Method{Name: name, Payload: obj(fs...), HTTP: h}
	}
	cookies := small("cookies", "GET", &m.HTTPEndpoint{Cookies: []m.Mapping{{Attr: "session", Wire: "SID"}}, Query: []m.Mapping{{Attr: "theme"}}},
		fld("session", str(), true), fld("theme", str(), false))
	optcookie := small("optcookie", "GET", &m.HTTPEndpoint{Cookies: []m.Mapping{{Attr: "theme", Wire: "ui-theme"}}},
		fld("theme", &m.Attr{Type: &m.Type{Kind: m.String}, V: &m.Validation{Enum: []value.V{value.Str("dark"), value.Str("light")}}}, false))
	headers := small("headers", "GET", &m.HTTPEndpoint{Headers: []m.Mapping{{Attr: "token", Wire: "X-Token"}, {Attr: "trace", Wire: "X-Trace"}}},
		fld("token", str(), true), fld("trace", str(), false))
	queries := small("queries", "GET", &m.HTTPEndpoint{Query: []m.Mapping{{Attr: "filter", Wire: "f"}, {Attr: "page"}}},
		fld("filter", str(), true), fld("page", i64(), false))

	return &m.Design{API: m.API{Name: "matrix", Title: "Parameter matrix"},
		Services: []*m.Service{{Name: "matrix", HasHTTP: true, Methods: []*m.Method{meth, typed, cookies, optcookie, headers, queries}}},
		Features: []string{"fixed-design:param-matrix", "cookie", "renamed-cookie", "response-cookie", "response-header", "required-default-optional-matrix", "typed-params"}}
}

// ViewMatrix is a fixed design that crosses, inside the views of one result
// type, sibling attributes of the same nested result type with every way of
// choosing the nested view (no override, each named view), in several
// orders, directly and through an array.
func ViewMatrix() *m.Design {
	str := func() *m.Attr { return m.Prim(m.String) }
	obj := func(fs ...*m.Field) *m.Attr { return &m.Attr{Type: &m.Type{Kind: m.Object, Fields: fs}} }
	fld := func(n string, a *m.Attr, req bool) *m.Field { return &m.Field{Name: n, Attr: a, Required: req} }
	vf := func(pairs ...string) []m.ViewField {
		var out []m.ViewField
		for i := 0; i+1 < len(pairs); i += 2 {
			out = append(out, m.ViewField{Name: pairs[i], View: pairs[i+1]})
		}
		return out
	}
	leaf := &m.UserType{Name: "Leaf", Var: "vleaf", Result: true, Identifier: "application/vnd.matrix.leaf",
		Attr: obj(fld("a", m.Prim(m.Int), true), fld("b", str(), false), fld("c", str(), false)),
		Views: []*m.View{
			{Name: "default", Fields: vf("a", "", "b", "", "c", "")},
			{Name: "tiny", Fields: vf("a", "")},
			{Name: "extended", Fields: vf("a", "", "b", "")},
		}}
	arr := func(e *m.Attr) *m.Attr { return &m.Attr{Type: &m.Type{Kind: m.Array, Elem: e}} }
	tree := &m.UserType{Name: "Tree", Var: "vtree", Result: true, Identifier: "application/vnd.matrix.tree",
		Attr: obj(fld("title", str(), true), fld("l1", m.UserRef("Leaf"), false), fld("l2", m.UserRef("Leaf"), false), fld("l3", m.UserRef("Leaf"), false), fld("many", arr(m.UserRef("Leaf")), false)),
		Views: []*m.View{
			{Name: "default", Fields: vf("title", "", "l1", "", "l2", "tiny", "l3", "extended", "many", "")},
			{Name: "alt", Fields: vf("title", "", "l1", "tiny", "l2", "", "l3", "tiny", "many", "tiny")},
			{Name: "rev", Fields: vf("l3", "extended", "title", "", "l1", "", "l2", "tiny")},
			{Name: "one", Fields: vf("title", "", "l2", "extended")},
		}}
	trees := &m.UserType{Name: "TreeCollection", Var: "vtrees", Result: true, CollectionOf: "Tree"}
	get := func(name, view string, t string) *m.Method {
		return &m.Method{Name: name, Result: m.UserRef(t), ResultView: view, HTTP: &m.HTTPEndpoint{Routes: []m.Route{{Verb: "GET", Path: "/" + name}}}}
	}
	return &m.Design{API: m.API{Name: "viewmatrix", Title: "View matrix"},
		Types:    []*m.UserType{leaf, tree, trees},
		Services: []*m.Service{{Name: "viewmatrix", HasHTTP: true, Methods: []*m.Method{get("get", "", "Tree"), get("getalt", "alt", "Tree"), get("getrev", "rev", "Tree"), get("list", "", "TreeCollection")}}},
		Features: []string{"fixed-design:view-matrix", "result-type", "views", "nested-view-override", "sibling-nested-views", "collection"}}
}

// GRPCMatrix is a fixed gRPC design crossing the message shapes random designs
// reach only now and then: every primitive kind as a field, a primitive alias
// as field / array element / map key / map value, nested arrays and maps,
// required and optional nested messages, arrays and maps, request metadata of
// several kinds, shuffled and sparse field numbers.
func GRPCMatrix() *m.Design {
	obj := func(fs ...*m.Field) *m.Attr { return &m.Attr{Type: &m.Type{Kind: m.Object, Fields: fs}} }
	tag := 0
	fld := func(n string, a *m.Attr, req bool) *m.Field { tag++; return &m.Field{Name: n, Attr: a, Required: req, Tag: tag} }
	reset := func(start int) { tag = start }
	arr := func(e *m.Attr) *m.Attr { return &m.Attr{Type: &m.Type{Kind: m.Array, Elem: e}} }
	mp := func(k, v *m.Attr) *m.Attr { return &m.Attr{Type: &m.Type{Kind: m.Map, Key: k, Val: v}} }
	prim := m.Prim

	// aliases
	uuid := &m.UserType{Name: "Ident", Var: "vident", Attr: &m.Attr{Type: &m.Type{Kind: m.String}, V: &m.Validation{MinLen: ip(2), MaxLen: ip(12)}}}
	score := &m.UserType{Name: "Score", Var: "vscore", Attr: &m.Attr{Type: &m.Type{Kind: m.Int32}, V: &m.Validation{Min: fp(0), Max: fp(100)}}}
	// nested messages
	reset(0)
	addr := &m.UserType{Name: "Address", Var: "vaddr", Attr: obj(fld("street", prim(m.String), true), fld("zip", prim(m.UInt32), false))}
	reset(10)
	line := &m.UserType{Name: "Line", Var: "vline", Attr: obj(fld("sku", m.UserRef("Ident"), true), fld("qty", prim(m.Int32), true), fld("weights", arr(prim(m.Float64)), false))}

	reset(0)
	kinds := &m.Method{Name: "kinds", GRPC: &m.GRPCEndpoint{}, Payload: obj(
		fld("s", prim(m.String), false), fld("i", prim(m.Int), false), fld("i32", prim(m.Int32), false), fld("i64", prim(m.Int64), true),
		fld("u", prim(m.UInt), false), fld("u32", prim(m.UInt32), true), fld("u64", prim(m.UInt64), false),
		fld("f32", prim(m.Float32), false), fld("f64", prim(m.Float64), true), fld("b", prim(m.Boolean), false), fld("raw", prim(m.Bytes), false))}
	reset(0)
	kinds.Result = obj(fld("s", prim(m.String), true), fld("i64", prim(m.Int64), false), fld("u32", prim(m.UInt32), false), fld("f64", prim(m.Float64), false), fld("b", prim(m.Boolean), true), fld("raw", prim(m.Bytes), false))

	reset(3)
	aliases := &m.Method{Name: "aliases", GRPC: &m.GRPCEndpoint{}, Payload: obj(
		fld("id", m.UserRef("Ident"), true), fld("ids", arr(m.UserRef("Ident")), false), fld("by_id", mp(m.UserRef("Ident"), prim(m.Int64)), false),
		fld("scores", mp(prim(m.String), m.UserRef("Score")), false), fld("top", m.UserRef("Score"), false), fld("grid", arr(arr(prim(m.Int32))), false))}
	reset(0)
	aliases.Result = obj(fld("ids", arr(m.UserRef("Ident")), true), fld("scores", mp(prim(m.String), m.UserRef("Score")), false))

	reset(100)
	order := &m.UserType{Name: "Order", Var: "vorder", Attr: obj(
		fld("id", prim(m.String), true), fld("ship_to", m.UserRef("Address"), true), fld("bill_to", m.UserRef("Address"), false),
		fld("lines", arr(m.UserRef("Line")), true), fld("notes", arr(prim(m.String)), false),
		fld("attrs", mp(prim(m.String), prim(m.String)), true), fld("extra", mp(prim(m.String), m.UserRef("Address")), false))}
	place := &m.Method{Name: "place", GRPC: &m.GRPCEndpoint{Metadata: []m.Mapping{{Attr: "id"}}, Message: []string{"ship_to", "lines", "notes"}, RespMessage: []string{"ship_to", "attrs"}},
		Payload: m.UserRef("Order"), Result: m.UserRef("Order")}

	reset(0)
	meta := &m.Method{Name: "meta", Payload: obj(
		fld("token", prim(m.String), true), fld("shard", prim(m.Int64), false), fld("debug", prim(m.Boolean), false), fld("ratio", prim(m.Float64), false),
		fld("tags", arr(prim(m.String)), false), fld("body", prim(m.String), true), fld("where", m.UserRef("Address"), true)),
		GRPC: &m.GRPCEndpoint{Metadata: []m.Mapping{{Attr: "token"}, {Attr: "shard"}, {Attr: "debug"}, {Attr: "ratio"}, {Attr: "tags"}}}}
	reset(0)
	meta.Result = obj(fld("ok", prim(m.Boolean), true))

	health := &m.Service{Name: "health", HasHTTP: true, Methods: []*m.Method{{Name: "ping", HTTP: &m.HTTPEndpoint{Routes: []m.Route{{Verb: "GET", Path: "/ping"}}}}}}
	return &m.Design{API: m.API{Name: "grpcmatrix", Title: "gRPC matrix", Server: true},
		Types:    []*m.UserType{uuid, score, addr, line, order},
		Services: []*m.Service{{Name: "grpcmatrix", HasGRPC: true, Methods: []*m.Method{kinds, aliases, place, meta}}, health},
		Features: []string{"fixed-design:grpc-matrix", "alias", "alias-array-element", "alias-map-key", "alias-map-value", "nested-array", "required-nested-message", "required-array", "required-map", "request-metadata", "sparse-tags"}}
}
