// Package reduce shrinks a failing design structurally (hierarchical delta
// debugging over the design model): it tries ever smaller designs and keeps a
// candidate when the caller's predicate still fails on it.
package reduce

import (
	"encoding/json"
	"regexp"
	"strings"

	m "verif/internal/model"
)

// Clone deep-copies a design.
func Clone(d *m.Design) *m.Design {
	b, _ := json.Marshal(d)
	var c m.Design
	_ = json.Unmarshal(b, &c)
	return &c
}

// Reduce returns a smaller design on which stillFails is true. budget bounds
// the number of predicate evaluations.
func Reduce(d *m.Design, stillFails func(*m.Design) bool, budget int) (*m.Design, int) {
	cur := Clone(d)
	evals := 0
	for {
		progress := false
		for _, cand := range candidates(cur) {
			if evals >= budget {
				return cur, evals
			}
			Repair(cand)
			if size(cand) >= size(cur) {
				continue
			}
			evals++
			if stillFails(cand) {
				cur = cand
				progress = true
				break
			}
		}
		if !progress {
			return cur, evals
		}
	}
}

func size(d *m.Design) int {
	b, _ := json.Marshal(d)
	return len(b)
}

// candidates lists single-step simplifications, biggest cuts first.
func candidates(d *m.Design) []*m.Design {
	var out []*m.Design
	add := func(f func(c *m.Design)) {
		c := Clone(d)
		f(c)
		out = append(out, c)
	}
	// drop services
	if len(d.Services) > 1 {
		for i := range d.Services {
			i := i
			add(func(c *m.Design) { c.Services = append(c.Services[:i], c.Services[i+1:]...) })
		}
	}
	// drop methods
	for si, s := range d.Services {
		if len(s.Methods) > 1 {
			for mi := range s.Methods {
				si, mi := si, mi
				add(func(c *m.Design) {
					ms := c.Services[si].Methods
					c.Services[si].Methods = append(ms[:mi], ms[mi+1:]...)
				})
			}
		}
	}
	// drop user types (Repair removes dangling references by replacing them with String)
	for ti := range d.Types {
		ti := ti
		add(func(c *m.Design) { c.Types = append(c.Types[:ti], c.Types[ti+1:]...) })
	}
	// API/service level decorations
	add(func(c *m.Design) {
		c.API.Errors, c.API.ErrorResp, c.API.BasePath, c.API.Security, c.API.Meta = nil, nil, "", nil, nil
		c.API.Server = false
		c.API.Version = ""
	})
	add(func(c *m.Design) { c.Schemes = nil })
	for si := range d.Services {
		si := si
		add(func(c *m.Design) {
			s := c.Services[si]
			s.Errors, s.ErrorResp, s.BasePath, s.MoreBasePaths, s.Files, s.Security, s.Desc = nil, nil, "", nil, nil, nil, ""
		})
		add(func(c *m.Design) { c.Services[si].Files = nil })
	}
	// method parts
	for si, s := range d.Services {
		for mi, meth := range s.Methods {
			si, mi := si, mi
			get := func(c *m.Design) *m.Method { return c.Services[si].Methods[mi] }
			if meth.Result != nil {
				add(func(c *m.Design) {
					x := get(c)
					x.Result, x.ResultView = nil, ""
					if x.HTTP != nil {
						x.HTTP.Responses = nil
					}
					if x.GRPC != nil {
						x.GRPC.Headers, x.GRPC.Trailers = nil, nil
					}
				})
			}
			if meth.Payload != nil {
				add(func(c *m.Design) {
					x := get(c)
					x.Payload = nil
					x.Creds = nil
					h := x.HTTP
					if h != nil {
						h.Path, h.Query, h.Headers, h.Cookies, h.Body, h.MapParams = nil, nil, nil, nil, nil, ""
					}
					if x.GRPC != nil {
						x.GRPC.Metadata = nil
					}
				})
			}
			if len(meth.Errors) > 0 {
				add(func(c *m.Design) {
					x := get(c)
					x.Errors = nil
					if x.HTTP != nil {
						x.HTTP.ErrorResp = nil
					}
				})
			}
			if meth.HTTP != nil {
				if len(meth.HTTP.Routes) > 1 {
					add(func(c *m.Design) { x := get(c); x.HTTP.Routes = x.HTTP.Routes[:1] })
				}
				if len(meth.HTTP.Responses) > 0 {
					add(func(c *m.Design) { get(c).HTTP.Responses = nil })
				}
				if len(meth.HTTP.Responses) > 1 {
					for ri := range meth.HTTP.Responses {
						ri := ri
						add(func(c *m.Design) {
							rs := get(c).HTTP.Responses
							get(c).HTTP.Responses = append(rs[:ri], rs[ri+1:]...)
						})
					}
				}
				add(func(c *m.Design) {
					h := get(c).HTTP
					h.Query, h.Headers, h.Cookies, h.Body = nil, nil, nil, nil
				})
				if meth.HTTP.Body != nil {
					add(func(c *m.Design) { get(c).HTTP.Body = nil })
				}
			}
			if meth.GRPC != nil && len(meth.GRPC.Metadata)+len(meth.GRPC.Headers)+len(meth.GRPC.Trailers) > 0 {
				add(func(c *m.Design) { g := get(c).GRPC; g.Metadata, g.Headers, g.Trailers = nil, nil, nil })
				add(func(c *m.Design) { get(c).GRPC.Metadata = nil })
				add(func(c *m.Design) { get(c).GRPC.Headers = nil })
				add(func(c *m.Design) { get(c).GRPC.Trailers = nil })
			}
			if len(meth.Security) > 0 || meth.NoSecurity {
				add(func(c *m.Design) { x := get(c); x.Security = nil; x.NoSecurity = false; x.Creds = nil })
			}
		}
	}
	// attribute-level simplifications, for every attribute reachable
	for _, ap := range attrPaths(d) {
		ap := ap
		a := ap.get(d)
		if a == nil || a.Type == nil {
			continue
		}
		if a.Type.Kind == m.Object || a.Type.Kind == m.Union {
			for fi := range a.Type.Fields {
				fi := fi
				add(func(c *m.Design) {
					x := ap.get(c)
					x.Type.Fields = append(x.Type.Fields[:fi], x.Type.Fields[fi+1:]...)
				})
			}
			for fi, f := range a.Type.Fields {
				if f.Required {
					fi := fi
					add(func(c *m.Design) { ap.get(c).Type.Fields[fi].Required = false })
				}
			}
		}
		if a.V != nil {
			add(func(c *m.Design) { ap.get(c).V = nil })
		}
		if a.Default != nil {
			add(func(c *m.Design) { ap.get(c).Default = nil })
		}
		if a.Desc != "" || len(a.Meta) > 0 || a.View != "" {
			add(func(c *m.Design) { x := ap.get(c); x.Desc = ""; x.Meta = nil; x.View = "" })
		}
		if a.Type.Kind != m.String && !ap.root {
			add(func(c *m.Design) { x := ap.get(c); x.Type = &m.Type{Kind: m.String}; x.V = nil; x.Default = nil })
		}
		if a.Type.Kind == m.Array || a.Type.Kind == m.Map {
			// collection -> its element type
			add(func(c *m.Design) {
				x := ap.get(c)
				if x.Type.Kind == m.Array {
					*x = *x.Type.Elem
				} else {
					*x = *x.Type.Val
				}
			})
		}
	}
	// views
	for ti, t := range d.Types {
		if len(t.Views) > 1 {
			for vi := range t.Views {
				if t.Views[vi].Name == "default" {
					continue
				}
				ti, vi := ti, vi
				add(func(c *m.Design) {
					vs := c.Types[ti].Views
					c.Types[ti].Views = append(vs[:vi], vs[vi+1:]...)
				})
			}
		}
		if t.Extend != "" || t.Reference != "" {
			ti := ti
			add(func(c *m.Design) { c.Types[ti].Extend, c.Types[ti].Reference = "", "" })
		}
	}
	return out
}

type attrPath struct {
	root bool
	get  func(d *m.Design) *m.Attr
}

// attrPaths enumerates accessors for every attribute of the design.
func attrPaths(d *m.Design) []attrPath {
	var out []attrPath
	var walk func(get func(d *m.Design) *m.Attr, root bool, depth int)
	walk = func(get func(d *m.Design) *m.Attr, root bool, depth int) {
		a := get(d)
		if a == nil || a.Type == nil || depth > 6 {
			return
		}
		out = append(out, attrPath{root, get})
		switch a.Type.Kind {
		case m.Object, m.Union:
			for i := range a.Type.Fields {
				i := i
				walk(func(d *m.Design) *m.Attr {
					p := get(d)
					if p == nil || p.Type == nil || i >= len(p.Type.Fields) {
						return nil
					}
					return p.Type.Fields[i].Attr
				}, false, depth+1)
			}
		case m.Array:
			walk(func(d *m.Design) *m.Attr {
				p := get(d)
				if p == nil || p.Type == nil || p.Type.Kind != m.Array {
					return nil
				}
				return p.Type.Elem
			}, false, depth+1)
		case m.Map:
			walk(func(d *m.Design) *m.Attr {
				p := get(d)
				if p == nil || p.Type == nil || p.Type.Kind != m.Map {
					return nil
				}
				return p.Type.Val
			}, false, depth+1)
		}
	}
	for ti := range d.Types {
		ti := ti
		walk(func(d *m.Design) *m.Attr {
			if ti >= len(d.Types) {
				return nil
			}
			return d.Types[ti].Attr
		}, true, 0)
	}
	for si, s := range d.Services {
		for mi := range s.Methods {
			si, mi := si, mi
			walk(func(d *m.Design) *m.Attr {
				if si >= len(d.Services) || mi >= len(d.Services[si].Methods) {
					return nil
				}
				return d.Services[si].Methods[mi].Payload
			}, true, 0)
			walk(func(d *m.Design) *m.Attr {
				if si >= len(d.Services) || mi >= len(d.Services[si].Methods) {
					return nil
				}
				return d.Services[si].Methods[mi].Result
			}, true, 0)
			for ei := range s.Methods[mi].Errors {
				ei := ei
				walk(func(d *m.Design) *m.Attr {
					if si >= len(d.Services) || mi >= len(d.Services[si].Methods) || ei >= len(d.Services[si].Methods[mi].Errors) {
						return nil
					}
					return d.Services[si].Methods[mi].Errors[ei].Type
				}, true, 0)
			}
		}
	}
	return out
}

var rePathParam = regexp.MustCompile(`/\{\*?([^}/]+)\}`)

// Repair re-establishes the model invariants after a cut: dangling user-type
// references become String, mappings of missing attributes disappear, path
// parameters without an attribute are removed from the routes, views only
// name existing attributes, error responses only name declared errors.
func Repair(d *m.Design) {
	known := map[string]*m.UserType{}
	for _, t := range d.Types {
		known[t.Name] = t
	}
	var fixType func(a *m.Attr, depth int)
	fixType = func(a *m.Attr, depth int) {
		if a == nil || a.Type == nil || depth > 8 {
			return
		}
		switch a.Type.Kind {
		case m.User:
			if known[a.Type.User] == nil {
				a.Type = &m.Type{Kind: m.String}
				a.V, a.Default, a.View = nil, nil, ""
			}
		case m.Array:
			fixType(a.Type.Elem, depth+1)
		case m.Map:
			fixType(a.Type.Key, depth+1)
			fixType(a.Type.Val, depth+1)
		case m.Object, m.Union:
			for _, f := range a.Type.Fields {
				fixType(f.Attr, depth+1)
			}
		}
	}
	for _, t := range d.Types {
		fixType(t.Attr, 0)
		if t.Extend != "" && known[t.Extend] == nil {
			t.Extend = ""
		}
		if t.Reference != "" && known[t.Reference] == nil {
			t.Reference = ""
		}
		if t.CollectionOf != "" && known[t.CollectionOf] == nil {
			t.CollectionOf = ""
		}
		if t.Result && t.Attr != nil && t.Attr.Type.Kind == m.Object {
			has := map[string]bool{}
			for _, f := range t.Attr.Type.Fields {
				has[f.Name] = true
			}
			for _, v := range t.Views {
				var fs []m.ViewField
				for _, vf := range v.Fields {
					if has[vf.Name] {
						fs = append(fs, vf)
					}
				}
				v.Fields = fs
			}
		}
	}
	schemes := map[string]bool{}
	for _, s := range d.Schemes {
		schemes[s.Name] = true
	}
	fixReqs := func(rs []m.Requirement) []m.Requirement {
		var out []m.Requirement
		for _, r := range rs {
			ok := len(r.Schemes) > 0
			for _, s := range r.Schemes {
				if !schemes[s] {
					ok = false
				}
			}
			if ok {
				out = append(out, r)
			}
		}
		return out
	}
	d.API.Security = fixReqs(d.API.Security)
	apiErr := map[string]bool{}
	for _, e := range d.API.Errors {
		apiErr[e.Name] = true
	}
	for _, s := range d.Services {
		s.Security = fixReqs(s.Security)
		svcErr := map[string]bool{}
		for _, e := range s.Errors {
			svcErr[e.Name] = true
			fixType(e.Type, 0)
		}
		var ser []*m.ErrorResponse
		for _, er := range s.ErrorResp {
			if svcErr[er.Name] || apiErr[er.Name] {
				ser = append(ser, er)
			}
		}
		s.ErrorResp = ser
		for _, meth := range s.Methods {
			meth.Security = fixReqs(meth.Security)
			fixType(meth.Payload, 0)
			fixType(meth.Result, 0)
			fixType(meth.StreamingPayload, 0)
			for _, e := range meth.Errors {
				fixType(e.Type, 0)
			}
			h := meth.HTTP
			if h == nil {
				continue
			}
			// payload attribute names
			pnames := map[string]bool{}
			primitivePayload := false
			if meth.Payload != nil {
				if fs := d.ObjectFields(meth.Payload); fs != nil {
					for _, f := range fs {
						pnames[f.Name] = true
					}
				} else {
					primitivePayload = true
				}
			}
			keep := func(ms []m.Mapping) []m.Mapping {
				var out []m.Mapping
				for _, mp := range ms {
					if pnames[mp.Attr] || (primitivePayload && meth.Payload != nil) {
						out = append(out, mp)
					}
				}
				return out
			}
			oldPath := h.Path
			h.Path, h.Query, h.Headers, h.Cookies = keep(h.Path), keep(h.Query), keep(h.Headers), keep(h.Cookies)
			if meth.Payload == nil {
				h.Path, h.Query, h.Headers, h.Cookies, h.Body, h.MapParams = nil, nil, nil, nil, nil, ""
			}
			kept := map[string]bool{}
			for _, p := range h.Path {
				kept[p.Attr] = true
			}
			for _, p := range oldPath {
				if !kept[p.Attr] {
					for ri := range h.Routes {
						h.Routes[ri].Path = strings.Replace(h.Routes[ri].Path, "/{"+p.Attr+"}", "", 1)
						if h.Routes[ri].Path == "" {
							h.Routes[ri].Path = "/"
						}
					}
				}
			}
			// path params must be required
			for _, p := range h.Path {
				if f := d.FieldByName(meth.Payload, p.Attr); f != nil {
					f.Required = true
				}
			}
			if h.Body != nil {
				switch h.Body.Mode {
				case "attr":
					if !pnames[h.Body.Attr] {
						h.Body = nil
					}
				case "fields":
					var fs []string
					for _, f := range h.Body.Fields {
						if pnames[f] {
							fs = append(fs, f)
						}
					}
					h.Body.Fields = fs
					if len(fs) == 0 {
						h.Body = nil
					}
				}
			}
			// responses
			rnames := map[string]bool{}
			if meth.Result != nil {
				for _, f := range d.ObjectFields(meth.Result) {
					rnames[f.Name] = true
				}
			}
			var resps []*m.Response
			untagged := false
			for _, r := range h.Responses {
				keepR := func(ms []m.Mapping) []m.Mapping {
					var out []m.Mapping
					for _, mp := range ms {
						if rnames[mp.Attr] {
							out = append(out, mp)
						}
					}
					return out
				}
				r.Headers, r.Cookies = keepR(r.Headers), keepR(r.Cookies)
				if r.Body != nil && r.Body.Mode == "attr" && !rnames[r.Body.Attr] {
					r.Body = nil
				}
				if r.TagName != "" && !rnames[r.TagName] {
					continue
				}
				if r.TagName == "" {
					untagged = true
				}
				resps = append(resps, r)
			}
			if !untagged && len(resps) > 0 {
				resps[len(resps)-1].TagName, resps[len(resps)-1].TagValue = "", ""
			}
			h.Responses = resps
			if meth.Result == nil {
				for _, r := range h.Responses {
					r.Headers, r.Cookies, r.Body, r.TagName, r.TagValue = nil, nil, nil, "", ""
				}
				if len(h.Responses) > 1 {
					h.Responses = h.Responses[:1]
				}
			}
			merr := map[string]bool{}
			for _, e := range meth.Errors {
				merr[e.Name] = true
			}
			var mer []*m.ErrorResponse
			for _, er := range h.ErrorResp {
				if merr[er.Name] || svcErr[er.Name] || apiErr[er.Name] {
					mer = append(mer, er)
				}
			}
			h.ErrorResp = mer
			var creds []m.Cred
			for _, c := range meth.Creds {
				if pnames[c.Attr] && schemes[c.Scheme] {
					creds = append(creds, c)
				}
			}
			meth.Creds = creds
		}
	}
	_ = rePathParam
}
