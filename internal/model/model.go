// Package model is the verifier's own description of a goa design: the
// generators build it, Lower turns it into a DSL call tree, and the oracles
// read it to know what the design promises. It is independent of goa's expr
// package on purpose.
package model

import (
	"verif/internal/value"
)

// Kind enumerates the data types of the DSL.
type Kind string

const (
	Boolean Kind = "Boolean"
	Int     Kind = "Int"
	Int32   Kind = "Int32"
	Int64   Kind = "Int64"
	UInt    Kind = "UInt"
	UInt32  Kind = "UInt32"
	UInt64  Kind = "UInt64"
	Float32 Kind = "Float32"
	Float64 Kind = "Float64"
	String  Kind = "String"
	Bytes   Kind = "Bytes"
	Any     Kind = "Any"
	Array   Kind = "Array"
	Map     Kind = "Map"
	Object  Kind = "Object"
	User    Kind = "User"  // reference to a named type (object type, alias, result type)
	Union   Kind = "Union" // OneOf
)

// Primitives lists the primitive kinds.
var Primitives = []Kind{Boolean, Int, Int32, Int64, UInt, UInt32, UInt64, Float32, Float64, String, Bytes, Any}

// IsPrimitive reports whether k is a primitive kind.
func (k Kind) IsPrimitive() bool {
	switch k {
	case Array, Map, Object, User, Union:
		return false
	}
	return true
}

// IsInt reports whether k is a signed or unsigned integer kind.
func (k Kind) IsInt() bool {
	switch k {
	case Int, Int32, Int64, UInt, UInt32, UInt64:
		return true
	}
	return false
}

// IsUnsigned reports whether k is an unsigned integer kind.
func (k Kind) IsUnsigned() bool { return k == UInt || k == UInt32 || k == UInt64 }

// IsFloat reports whether k is a float kind.
func (k Kind) IsFloat() bool { return k == Float32 || k == Float64 }

// IsNumeric reports whether k is numeric.
func (k Kind) IsNumeric() bool { return k.IsInt() || k.IsFloat() }

// Type is a data type.
type Type struct {
	Kind   Kind     `json:"kind"`
	Elem   *Attr    `json:"elem,omitempty"`   // Array
	Key    *Attr    `json:"key,omitempty"`    // Map
	Val    *Attr    `json:"val,omitempty"`    // Map
	Fields []*Field `json:"fields,omitempty"` // Object, Union (alternatives)
	User   string   `json:"user,omitempty"`   // User: name of the type in Design.Types
	// Extend / Reference (inline objects only; user types carry theirs in
	// UserType): the object is written with Extend(T) / Reference(T) first.
	// The inherited attributes are listed in Fields like any other (so that
	// every oracle sees the effective object) and marked with Field.Inherit.
	Extend    string `json:"extend,omitempty"`
	Reference string `json:"reference,omitempty"`
}

// Field is a named attribute of an object (or an alternative of a union).
type Field struct {
	Name     string `json:"name"`
	Attr     *Attr  `json:"attr"`
	Required bool   `json:"required,omitempty"`
	// gRPC field number (0 = none)
	Tag int `json:"tag,omitempty"`
	// ErrName marks the attribute holding the error name of a custom error type (ErrorName DSL).
	ErrName bool `json:"err_name,omitempty"`
	// Inherit: "extend" = the attribute comes from the type named by Extend
	// and is not written again (its requiredness comes along);
	// "reference" = written as a bare Attribute("name") whose type,
	// validations and default come from the type named by Reference.
	Inherit string `json:"inherit,omitempty"`
}

// Validation holds the validation keywords of an attribute.
type Validation struct {
	Enum    []value.V `json:"enum,omitempty"`
	Format  string    `json:"format,omitempty"` // DSL constant name: FormatDate …
	Pattern string    `json:"pattern,omitempty"`
	Min     *float64  `json:"min,omitempty"`
	Max     *float64  `json:"max,omitempty"`
	ExclMin *float64  `json:"excl_min,omitempty"`
	ExclMax *float64  `json:"excl_max,omitempty"`
	MinLen  *int      `json:"min_len,omitempty"`
	MaxLen  *int      `json:"max_len,omitempty"`
}

// Empty reports whether no keyword is set.
func (v *Validation) Empty() bool {
	return v == nil || (len(v.Enum) == 0 && v.Format == "" && v.Pattern == "" && v.Min == nil && v.Max == nil && v.ExclMin == nil && v.ExclMax == nil && v.MinLen == nil && v.MaxLen == nil)
}

// Attr is an attribute: a type plus documentation, validations, default and metadata.
type Attr struct {
	Type    *Type       `json:"type"`
	Desc    string      `json:"desc,omitempty"`
	V       *Validation `json:"v,omitempty"`
	Default *value.V    `json:"default,omitempty"`
	// DefaultFromAlias: Default repeats the default declared on the primitive
	// alias type this attribute refers to (Type("Priority", Int, func(){ Default(3) }));
	// it is not written again at the use site.
	DefaultFromAlias bool       `json:"default_from_alias,omitempty"`
	Meta             [][]string `json:"meta,omitempty"` // [key, values…] in declaration order
	// VAtMapping: V is written in the HTTP mapping of the attribute
	// (Param("x", func(){ Maximum(50) }), Header, Cookie) instead of in the
	// attribute itself. The effective validation is the same; this is the only
	// place where the DSL lets an attribute of a user type carry bounds of its own.
	VAtMapping bool `json:"v_at_mapping,omitempty"`
	// View selects the view used to render a nested result type (Meta "view" / View DSL inside Attribute).
	View string `json:"view,omitempty"`
}

// UserType is a named type.
type UserType struct {
	Name string `json:"name"`
	Attr *Attr  `json:"attr"`
	// Result types
	Result     bool    `json:"result,omitempty"`
	Identifier string  `json:"identifier,omitempty"`
	Views      []*View `json:"views,omitempty"`
	// Collection: this result type is CollectionOf(Of)
	CollectionOf string `json:"collection_of,omitempty"`
	// Extend / Reference another user type (object types only)
	Extend    string `json:"extend,omitempty"`
	Reference string `json:"reference,omitempty"`
	// Var is the Go variable holding the type in the printed design.
	Var string `json:"var"`
}

// View is a view of a result type.
type View struct {
	Name   string      `json:"name"`
	Fields []ViewField `json:"fields"`
}

// ViewField names an attribute of a view and, optionally, the view used for
// that attribute when it is itself a result type.
type ViewField struct {
	Name string `json:"name"`
	View string `json:"view,omitempty"`
}

// Scheme is a security scheme.
type Scheme struct {
	Kind   string   `json:"kind"` // "basic", "apikey", "jwt", "oauth2"
	Name   string   `json:"name"`
	Scopes []string `json:"scopes,omitempty"`
	Var    string   `json:"var"`
}

// Requirement is one Security(...) call: all schemes must succeed.
type Requirement struct {
	Schemes []string `json:"schemes"`
	Scopes  []string `json:"scopes,omitempty"`
}

// ErrorDef is a declared error.
type ErrorDef struct {
	Name string `json:"name"`
	// Type: nil = ErrorResult (goa.ServiceError); otherwise a custom type.
	Type      *Attr  `json:"type,omitempty"`
	Desc      string `json:"desc,omitempty"`
	Temporary bool   `json:"temporary,omitempty"`
	Timeout   bool   `json:"timeout,omitempty"`
	Fault     bool   `json:"fault,omitempty"`
}

// Mapping maps a payload/result attribute to a wire name.
type Mapping struct {
	Attr string `json:"attr"`
	Wire string `json:"wire"` // "" = same as Attr
}

// WireName returns the name used on the wire.
func (m Mapping) WireName() string {
	if m.Wire != "" {
		return m.Wire
	}
	return m.Attr
}

// Route is an HTTP route.
type Route struct {
	Verb string `json:"verb"`
	Path string `json:"path"` // as written in the design: "/a/{id}", "//abs", "/f/{*rest}"
}

// Response is an HTTP success response.
type Response struct {
	Status      int       `json:"status"`
	TagName     string    `json:"tag_name,omitempty"`
	TagValue    string    `json:"tag_value,omitempty"`
	Headers     []Mapping `json:"headers,omitempty"`
	Cookies     []Mapping `json:"cookies,omitempty"`
	Body        *Body     `json:"body,omitempty"`
	ContentType string    `json:"content_type,omitempty"`
}

// Body describes an explicit body mapping. nil means "default": every
// attribute not mapped elsewhere.
type Body struct {
	// Mode: "attr" (Body("name")), "empty" (Body(Empty)), "fields" (Body(func(){Attribute(..)}))
	Mode   string   `json:"mode"`
	Attr   string   `json:"attr,omitempty"`
	Fields []string `json:"fields,omitempty"`
}

// ErrorResponse maps a declared error to a status code.
type ErrorResponse struct {
	Name    string    `json:"name"`
	Status  int       `json:"status"`
	Headers []Mapping `json:"headers,omitempty"`
	Level   string    `json:"level"` // "method", "service", "api"
	// BodyAttr: Body("attr") inside the error response (C12 mutants only)
	BodyAttr string `json:"body_attr,omitempty"`
}

// HTTPEndpoint is the HTTP mapping of a method.
type HTTPEndpoint struct {
	// Meta written inside HTTP(func(){ ... }) (openapi tags, operation id, extensions ...)
	Meta         [][]string       `json:"meta,omitempty"`
	Routes       []Route          `json:"routes"`
	Path         []Mapping        `json:"path,omitempty"` // attributes captured from the path
	Query        []Mapping        `json:"query,omitempty"`
	Headers      []Mapping        `json:"headers,omitempty"`
	Cookies      []Mapping        `json:"cookies,omitempty"`
	MapParams    string           `json:"map_params,omitempty"` // attribute receiving all query params ("*" = whole payload)
	Body         *Body            `json:"body,omitempty"`
	Responses    []*Response      `json:"responses,omitempty"`
	ErrorResp    []*ErrorResponse `json:"error_resp,omitempty"` // method-level error responses
	Multipart    bool             `json:"multipart,omitempty"`
	SkipReqBody  bool             `json:"skip_req_body,omitempty"`
	SkipRespBody bool             `json:"skip_resp_body,omitempty"`
}

// GRPCEndpoint is the gRPC mapping of a method.
type GRPCEndpoint struct {
	Metadata []Mapping `json:"metadata,omitempty"`
	Headers  []Mapping `json:"headers,omitempty"`
	Trailers []Mapping `json:"trailers,omitempty"`
	Code     string    `json:"code,omitempty"`
	// Message / RespMessage list attributes named explicitly with the
	// Message DSL (request / response). The DSL documents that every other
	// payload (result) attribute not carried in metadata is added to the
	// message as well, so the lists do not change where anything travels.
	Message     []string `json:"message,omitempty"`
	RespMessage []string `json:"resp_message,omitempty"`
}

// Method is a service method.
type Method struct {
	Name    string `json:"name"`
	Payload *Attr  `json:"payload,omitempty"`
	Result  *Attr  `json:"result,omitempty"`
	// ResultView fixes the view in the design (Result(T, func(){ View("x") })).
	ResultView string      `json:"result_view,omitempty"`
	Errors     []*ErrorDef `json:"errors,omitempty"`
	// Streaming: "", "payload", "result", "bidirectional"
	Streaming        string        `json:"streaming,omitempty"`
	StreamingPayload *Attr         `json:"streaming_payload,omitempty"`
	Security         []Requirement `json:"security,omitempty"`
	NoSecurity       bool          `json:"no_security,omitempty"`
	// SecurityAttrs: payload attribute name per scheme credential, e.g.
	// {"scheme":"jwt","kind":"token","attr":"token"}
	Creds []Cred `json:"creds,omitempty"`
	// ImplicitAuth lists credential attributes left unmapped in the design: goa
	// carries them in the Authorization header (the model lists that mapping in
	// HTTP.Headers for the oracles, the lowering omits it).
	ImplicitAuth []string      `json:"implicit_auth,omitempty"`
	HTTP         *HTTPEndpoint `json:"http,omitempty"`
	GRPC         *GRPCEndpoint `json:"grpc,omitempty"`
}

// Cred declares a credential attribute of the payload.
type Cred struct {
	Scheme string `json:"scheme"`
	// Kind: "username", "password", "apikey", "token", "accesstoken"
	Kind string `json:"kind"`
	Attr string `json:"attr"`
}

// FileServer is a Files(...) declaration.
type FileServer struct {
	Path     string `json:"path"`
	Filename string `json:"filename"`
}

// Service is a service.
type Service struct {
	Name     string        `json:"name"`
	Desc     string        `json:"desc,omitempty"`
	Methods  []*Method     `json:"methods"`
	Errors   []*ErrorDef   `json:"errors,omitempty"`
	Security []Requirement `json:"security,omitempty"`
	// HTTP level
	BasePath string `json:"base_path,omitempty"`
	// MoreBasePaths: further Path(...) calls of the service HTTP expression (only with BasePath set):
	// every route and file server of the service is mounted under each base path
	MoreBasePaths []string         `json:"more_base_paths,omitempty"`
	ErrorResp     []*ErrorResponse `json:"error_resp,omitempty"`
	Files         []FileServer     `json:"files,omitempty"`
	HasHTTP       bool             `json:"has_http,omitempty"`
	HasGRPC       bool             `json:"has_grpc,omitempty"`
	// Meta written in the service body (openapi tags, extensions ...)
	Meta [][]string `json:"meta,omitempty"`
}

// BasePaths lists the base paths of the service ([""] when it declares none).
func (s *Service) BasePaths() []string {
	if s.BasePath == "" {
		return []string{""}
	}
	return append([]string{s.BasePath}, s.MoreBasePaths...)
}

// API holds the API-level declarations.
type API struct {
	Name      string           `json:"name"`
	Title     string           `json:"title,omitempty"`
	Version   string           `json:"version,omitempty"`
	BasePath  string           `json:"base_path,omitempty"`
	Errors    []*ErrorDef      `json:"errors,omitempty"`
	ErrorResp []*ErrorResponse `json:"error_resp,omitempty"`
	Security  []Requirement    `json:"security,omitempty"`
	Server    bool             `json:"server,omitempty"`
	Meta      [][]string       `json:"meta,omitempty"`
}

// Design is a whole design.
type Design struct {
	API      API         `json:"api"`
	Types    []*UserType `json:"types,omitempty"`
	Schemes  []*Scheme   `json:"schemes,omitempty"`
	Services []*Service  `json:"services"`
	// Features is the set of feature labels the generator used (for
	// non-triviality and evidence histograms).
	Features []string `json:"features,omitempty"`
	// Style seeds the choice among equivalent spellings of the same design
	// when it is lowered to DSL calls (Response(code, fn) or Response(fn) with
	// Code inside, one Required call or several, path parameters left implicit
	// or declared with Param before the query parameters, ...). 0 = the
	// plainest spelling everywhere.
	Style uint64 `json:"style,omitempty"`
}

// TypeByName returns the named user type.
func (d *Design) TypeByName(name string) *UserType {
	for _, t := range d.Types {
		if t.Name == name {
			return t
		}
	}
	return nil
}

// Resolve follows user-type references until a non-User type is reached. It
// returns the final attribute (whose validations apply in addition to the ones
// met on the way) and the chain of attributes traversed, outermost first.
func (d *Design) Resolve(a *Attr) (*Attr, []*Attr) {
	var chain []*Attr
	seen := map[string]bool{}
	for a != nil && a.Type != nil && a.Type.Kind == User {
		chain = append(chain, a)
		if seen[a.Type.User] {
			return a, chain
		}
		seen[a.Type.User] = true
		ut := d.TypeByName(a.Type.User)
		if ut == nil {
			return a, chain
		}
		a = ut.Attr
	}
	chain = append(chain, a)
	return a, chain
}

// Underlying returns the kind reached after resolving user types.
func (d *Design) Underlying(a *Attr) Kind {
	r, _ := d.Resolve(a)
	if r == nil || r.Type == nil {
		return ""
	}
	return r.Type.Kind
}

// ObjectFields returns the fields of an attribute whose (resolved) type is an object.
func (d *Design) ObjectFields(a *Attr) []*Field {
	r, _ := d.Resolve(a)
	if r == nil || r.Type == nil || r.Type.Kind != Object {
		return nil
	}
	return r.Type.Fields
}

// FieldByName returns the named field of an object attribute.
func (d *Design) FieldByName(a *Attr, name string) *Field {
	for _, f := range d.ObjectFields(a) {
		if f.Name == name {
			return f
		}
	}
	return nil
}

// Prim is shorthand for an attribute of a primitive type.
func Prim(k Kind) *Attr { return &Attr{Type: &Type{Kind: k}} }

// UserRef is shorthand for an attribute referring to a user type.
func UserRef(name string) *Attr { return &Attr{Type: &Type{Kind: User, User: name}} }
