package model

import (
	"fmt"
	"sort"
	"strings"

	dt "verif/internal/dsltree"
	"verif/internal/value"
)

// Lower turns the design into a DSL call tree.
func (d *Design) Lower() *dt.Program {
	l := &lowerer{d: d, declared: map[string]bool{}}
	p := &dt.Program{}
	p.Nodes = append(p.Nodes, l.api())
	for _, s := range d.Schemes {
		p.Nodes = append(p.Nodes, l.scheme(s))
	}
	for _, t := range d.Types {
		if t.CollectionOf != "" {
			continue // CollectionOf(T) is written inline where it is used
		}
		p.Nodes = append(p.Nodes, l.userType(t))
		l.declared[t.Name] = true
	}
	for _, s := range d.Services {
		p.Nodes = append(p.Nodes, l.service(s))
	}
	return p
}

type lowerer struct {
	d        *Design
	declared map[string]bool // user types already assigned to their variable
	picks    uint64          // number of spelling choices made so far
	// atMapping: the validation being lowered is the one of an HTTP mapping function
	atMapping bool
}

// pick chooses among n equivalent spellings: a function of Design.Style and of
// the position of the choice (0 when Style is 0).
func (l *lowerer) pick(n int) int {
	if l.d.Style == 0 || n <= 1 {
		return 0
	}
	l.picks++
	x := l.d.Style + l.picks*0x9E3779B97F4A7C15
	x ^= x >> 30
	x *= 0xBF58476D1CE4E5B9
	x ^= x >> 27
	x *= 0x94D049BB133111EB
	x ^= x >> 31
	return int(x % uint64(n))
}

func (l *lowerer) api() *dt.Node {
	a := l.d.API
	var body []*dt.Node
	if a.Title != "" {
		body = append(body, dt.N("Title", dt.S(a.Title)))
	}
	if a.Version != "" {
		body = append(body, dt.N("Version", dt.S(a.Version)))
	}
	for _, m := range a.Meta {
		body = append(body, metaNode(m))
	}
	if a.Server {
		var svcs []dt.Arg
		hasHTTP, hasGRPC := false, false
		for _, s := range l.d.Services {
			svcs = append(svcs, dt.S(s.Name))
			hasHTTP = hasHTTP || s.HasHTTP
			hasGRPC = hasGRPC || s.HasGRPC
		}
		var uris []*dt.Node
		if hasHTTP || !hasGRPC {
			uris = append(uris, dt.N("URI", dt.S("http://localhost:8000")))
		}
		if hasGRPC {
			uris = append(uris, dt.N("URI", dt.S("grpc://localhost:8080")))
		}
		body = append(body, dt.N("Server", dt.S(a.Name)).With(
			dt.N("Services", svcs...),
			dt.N("Host", dt.S("localhost")).With(uris...),
		))
	}
	for _, r := range a.Security {
		body = append(body, l.security(r))
	}
	for _, e := range a.Errors {
		body = append(body, l.errorDef(e))
	}
	if a.BasePath != "" || len(a.ErrorResp) > 0 {
		var h []*dt.Node
		if a.BasePath != "" {
			h = append(h, dt.N("Path", dt.S(a.BasePath)))
		}
		for _, er := range a.ErrorResp {
			h = append(h, l.errorResponse(er))
		}
		body = append(body, dt.N("HTTP").With(h...))
	}
	return dt.N("API", dt.S(a.Name)).With(body...)
}

func metaNode(m []string) *dt.Node {
	args := make([]dt.Arg, len(m))
	for i, s := range m {
		args[i] = dt.S(s)
	}
	return dt.N("Meta", args...)
}

func (l *lowerer) scheme(s *Scheme) *dt.Node {
	var body []*dt.Node
	for _, sc := range s.Scopes {
		body = append(body, dt.N("Scope", dt.S(sc), dt.S("scope "+sc)))
	}
	var n *dt.Node
	switch s.Kind {
	case "basic":
		n = dt.N("BasicAuthSecurity", dt.S(s.Name))
		body = nil
	case "apikey":
		n = dt.N("APIKeySecurity", dt.S(s.Name))
		body = nil
	case "jwt":
		n = dt.N("JWTSecurity", dt.S(s.Name))
	case "oauth2":
		n = dt.N("OAuth2Security", dt.S(s.Name))
		body = append([]*dt.Node{dt.N("ClientCredentialsFlow", dt.S("http://localhost/token"), dt.S("http://localhost/refresh"))}, body...)
	}
	if body != nil {
		n.With(body...)
	} else {
		n.With(dt.N("Description", dt.S("scheme "+s.Name)))
	}
	return n.As(s.Var)
}

func (l *lowerer) security(r Requirement) *dt.Node {
	var args []dt.Arg
	for _, s := range r.Schemes {
		found := false
		for _, sc := range l.d.Schemes {
			if sc.Name == s {
				args = append(args, dt.Ref(sc.Var))
				found = true
			}
		}
		if !found {
			// a scheme the design does not define (dangling-name programs): referred to by name
			args = append(args, dt.S(s))
		}
	}
	n := dt.N("Security", args...)
	if len(r.Scopes) > 0 {
		var b []*dt.Node
		for _, s := range r.Scopes {
			b = append(b, dt.N("Scope", dt.S(s)))
		}
		n.With(b...)
	}
	return n
}

// typeArg returns the argument denoting the type, plus body nodes that must
// go into the attribute DSL (inline object fields).
func (l *lowerer) typeArg(t *Type) (dt.Arg, bool) {
	switch t.Kind {
	case Array:
		n := dt.N("ArrayOf")
		ea, ok := l.typeArg(t.Elem.Type)
		if !ok {
			return dt.Arg{}, false
		}
		n.Args = append(n.Args, ea)
		if b := l.attrBody(t.Elem, false); len(b) > 0 {
			n.With(b...)
		}
		return dt.Call(n), true
	case Map:
		n := dt.N("MapOf")
		ka, ok1 := l.typeArg(t.Key.Type)
		va, ok2 := l.typeArg(t.Val.Type)
		if !ok1 || !ok2 {
			return dt.Arg{}, false
		}
		n.Args = append(n.Args, ka, va)
		var b []*dt.Node
		if kb := l.attrBody(t.Key, false); len(kb) > 0 {
			b = append(b, dt.N("Key").With(kb...))
		}
		if vb := l.attrBody(t.Val, false); len(vb) > 0 {
			b = append(b, dt.N("Elem").With(vb...))
		}
		if len(b) > 0 {
			n.With(b...)
		}
		return dt.Call(n), true
	case User:
		ut := l.d.TypeByName(t.User)
		if ut != nil && ut.CollectionOf != "" {
			if el := l.d.TypeByName(ut.CollectionOf); el != nil {
				return dt.Call(dt.N("CollectionOf", dt.Ref(el.Var))), true
			}
		}
		if ut != nil && l.declared[t.User] {
			return dt.Ref(ut.Var), true
		}
		return dt.S(t.User), true // forward or recursive reference by name
	case Object, Union:
		return dt.Arg{}, false
	default:
		return dt.C(string(t.Kind)), true
	}
}

// attrBody returns the DSL statements placed inside an attribute's func():
// description, validations, default, meta, and child attributes + Required
// for inline objects.
func (l *lowerer) attrBody(a *Attr, withDesc bool) []*dt.Node {
	var b []*dt.Node
	if withDesc && a.Desc != "" {
		b = append(b, dt.N("Description", dt.S(a.Desc)))
	}
	if a.Type.Kind == Object {
		b = append(b, l.objectBody(a.Type)...)
	}
	if a.Type.Kind == Union {
		for _, f := range a.Type.Fields {
			b = append(b, l.attribute(f))
		}
	}
	if a.View != "" {
		b = append(b, dt.N("View", dt.S(a.View)))
	}
	b = append(b, l.validation(a)...)
	if a.Default != nil && !a.DefaultFromAlias {
		b = append(b, dt.N("Default", l.defaultArg(a)))
	}
	for _, m := range a.Meta {
		b = append(b, metaNode(m))
	}
	return b
}

func (l *lowerer) objectBody(t *Type) []*dt.Node {
	var b []*dt.Node
	var req []dt.Arg
	if t.Extend != "" {
		if r := l.d.TypeByName(t.Extend); r != nil {
			b = append(b, dt.N("Extend", dt.Ref(r.Var)))
		}
	}
	if t.Reference != "" {
		if r := l.d.TypeByName(t.Reference); r != nil {
			b = append(b, dt.N("Reference", dt.Ref(r.Var)))
		}
	}
	for _, f := range t.Fields {
		if f.Inherit == "extend" {
			continue // brought by Extend, requiredness included
		}
		if f.Inherit == "reference" {
			// type, validations and default come from the referenced type
			if f.Tag > 0 {
				b = append(b, dt.N("Field", dt.I(int64(f.Tag)), dt.S(f.Name)))
			} else {
				b = append(b, dt.N("Attribute", dt.S(f.Name)))
			}
		} else {
			b = append(b, l.attribute(f))
		}
		if f.Required {
			req = append(req, dt.S(f.Name))
		}
	}
	if len(req) > 1 && l.pick(3) == 1 {
		// one Required call per attribute
		for _, r := range req {
			b = append(b, dt.N("Required", r))
		}
	} else if len(req) > 0 {
		b = append(b, dt.N("Required", req...))
	}
	return b
}

func (l *lowerer) attribute(f *Field) *dt.Node {
	if f.ErrName {
		return l.namedAttr("ErrorName", f.Name, f.Attr, f.Tag)
	}
	return l.namedAttr("Attribute", f.Name, f.Attr, f.Tag)
}

func (l *lowerer) namedAttr(fn, name string, a *Attr, tag int) *dt.Node {
	var n *dt.Node
	if tag > 0 && fn == "ErrorName" {
		// ErrorName(tag, name, type ...): the field-numbered form
		n = dt.N("ErrorName", dt.I(int64(tag)), dt.S(name))
	} else if tag > 0 {
		n = dt.N("Field", dt.I(int64(tag)), dt.S(name))
	} else {
		n = dt.N(fn, dt.S(name))
	}
	if a.Type.Kind == Union {
		n = dt.N("OneOf", dt.S(name))
		n.With(l.attrBody(a, false)...)
		return n
	}
	if ta, ok := l.typeArg(a.Type); ok {
		n.Args = append(n.Args, ta)
	}
	body := l.attrBody(a, true)
	if len(body) > 0 || a.Type.Kind == Object {
		n.With(body...)
	}
	return n
}

// mappingNode lowers a request mapping; validations the model marks
// VAtMapping are written in the function of the mapping.
func (l *lowerer) mappingNode(fn string, meth *Method, p Mapping) *dt.Node {
	n := dt.N(fn, dt.S(mapName(p)))
	if f := l.d.FieldByName(meth.Payload, p.Attr); f != nil && f.Attr.VAtMapping && !f.Attr.V.Empty() {
		l.atMapping = true
		n.With(l.validation(f.Attr)...)
		l.atMapping = false
	}
	return n
}

func (l *lowerer) validation(a *Attr) []*dt.Node {
	if a.VAtMapping && !l.atMapping {
		return nil // written in the HTTP mapping instead
	}
	v := a.V
	if v.Empty() {
		return nil
	}
	k := l.d.Underlying(a)
	var b []*dt.Node
	if len(v.Enum) > 0 {
		args := make([]dt.Arg, len(v.Enum))
		for i, e := range v.Enum {
			args[i] = valueArg(e, k)
		}
		b = append(b, dt.N("Enum", args...))
	}
	if v.Format != "" {
		b = append(b, dt.N("Format", dt.C(v.Format)))
	}
	if v.Pattern != "" {
		b = append(b, dt.N("Pattern", dt.S(v.Pattern)))
	}
	num := func(fn string, p *float64) {
		if p == nil {
			return
		}
		if k.IsFloat() {
			b = append(b, dt.N(fn, dt.F(*p)))
		} else {
			b = append(b, dt.N(fn, dt.I(int64(*p))))
		}
	}
	num("Minimum", v.Min)
	num("Maximum", v.Max)
	num("ExclusiveMinimum", v.ExclMin)
	num("ExclusiveMaximum", v.ExclMax)
	if v.MinLen != nil {
		b = append(b, dt.N("MinLength", dt.I(int64(*v.MinLen))))
	}
	if v.MaxLen != nil {
		b = append(b, dt.N("MaxLength", dt.I(int64(*v.MaxLen))))
	}
	return b
}

// valueArg renders a value as a DSL argument (Default, Enum).
// goTypeOf names the Go type a user writes for a literal of a primitive kind.
var goTypeOf = map[Kind]string{String: "string", Boolean: "bool", Int: "int", Int32: "int32", Int64: "int64", UInt: "uint", UInt32: "uint32", UInt64: "uint64", Float32: "float32", Float64: "float64"}

// defaultArg renders the default of an attribute. Defaults of arrays and maps
// of primitives are written as typed literals ([]string{…}, map[string]int64{…}),
// the way a design author writes them: goa copies the Go type of the value into
// the generated code.
func (l *lowerer) defaultArg(a *Attr) dt.Arg {
	arg := valueArg(*a.Default, l.d.Underlying(a))
	res, _ := l.d.Resolve(a)
	if res == nil || res.Type == nil {
		return arg
	}
	switch {
	case res.Type.Kind == Array && arg.Kind == "list":
		if t, ok := goTypeOf[l.d.Underlying(res.Type.Elem)]; ok {
			arg.Typ = "[]" + t
			for i, e := range a.Default.A {
				arg.List[i] = untyped(valueArg(e, l.d.Underlying(res.Type.Elem)))
			}
		}
	case res.Type.Kind == Map && arg.Kind == "strmap" && l.d.Underlying(res.Type.Key) == String:
		if t, ok := goTypeOf[l.d.Underlying(res.Type.Val)]; ok {
			arg.Typ = "map[string]" + t
			for i := 0; i+1 < len(a.Default.A); i += 2 {
				arg.List[i/2] = untyped(valueArg(a.Default.A[i+1], l.d.Underlying(res.Type.Val)))
			}
		}
	}
	return arg
}

// untyped drops the conversion from an element of a typed literal ([]int64{1}, not []int64{int64(1)}).
func untyped(a dt.Arg) dt.Arg {
	if a.Kind == "uint" {
		return dt.Arg{Kind: "int", I: int64(a.U)}
	}
	a.Typ = ""
	return a
}

func valueArg(v value.V, k Kind) dt.Arg {
	switch v.K {
	case "bool":
		return dt.B(v.B)
	case "int":
		a := dt.I(v.I)
		switch k {
		case Int64:
			a.Typ = "int64"
		case Float32, Float64:
			return dt.F(float64(v.I))
		}
		return a
	case "uint":
		switch k {
		case UInt64:
			return dt.U(v.U, "uint64")
		case UInt32:
			return dt.U(v.U, "uint32")
		case Float32, Float64:
			return dt.F(float64(v.U))
		}
		if v.U < 1<<31 {
			return dt.I(int64(v.U))
		}
		return dt.U(v.U, "uint")
	case "float":
		a := dt.F(v.F)
		if k == Float32 {
			a.Typ = "float32"
		}
		return a
	case "string":
		return dt.S(v.S)
	case "bytes":
		return dt.S(string(v.X))
	case "array":
		l := make([]dt.Arg, len(v.A))
		for i, e := range v.A {
			l[i] = valueArg(e, "")
		}
		return dt.List(l...)
	case "map":
		// string-keyed maps only (map[string]any literal)
		var keys []string
		var vals []dt.Arg
		for i := 0; i+1 < len(v.A); i += 2 {
			keys = append(keys, v.A[i].S)
			vals = append(vals, valueArg(v.A[i+1], ""))
		}
		return dt.Arg{Kind: "strmap", Keys: keys, List: vals}
	case "object":
		var keys []string
		var vals []dt.Arg
		for _, f := range v.O {
			keys = append(keys, f.N)
			vals = append(vals, valueArg(f.V, ""))
		}
		return dt.Arg{Kind: "strmap", Keys: keys, List: vals}
	}
	return dt.Nil()
}

func (l *lowerer) userType(t *UserType) *dt.Node {
	if t.Result {
		var body []*dt.Node
		body = append(body, dt.N("TypeName", dt.S(t.Name)))
		if t.Attr.Desc != "" {
			body = append(body, dt.N("Description", dt.S(t.Attr.Desc)))
		}
		if t.Reference != "" {
			if r := l.d.TypeByName(t.Reference); r != nil {
				body = append(body, dt.N("Reference", dt.Ref(r.Var)))
			}
		}
		var ab []*dt.Node
		if t.Extend != "" {
			if r := l.d.TypeByName(t.Extend); r != nil {
				ab = append(ab, dt.N("Extend", dt.Ref(r.Var)))
			}
		}
		ab = append(ab, l.objectBody(t.Attr.Type)...)
		body = append(body, dt.N("Attributes").With(ab...))
		for _, v := range t.Views {
			var vb []*dt.Node
			for _, f := range v.Fields {
				n := dt.N("Attribute", dt.S(f.Name))
				if f.View != "" {
					n.With(dt.N("View", dt.S(f.View)))
				}
				vb = append(vb, n)
			}
			body = append(body, dt.N("View", dt.S(v.Name)).With(vb...))
		}
		for _, m := range t.Attr.Meta {
			body = append(body, metaNode(m))
		}
		return dt.N("ResultType", dt.S(t.Identifier)).With(body...).As(t.Var)
	}
	n := dt.N("Type", dt.S(t.Name))
	if t.Attr.Type.Kind == Object {
		var body []*dt.Node
		if t.Attr.Desc != "" {
			body = append(body, dt.N("Description", dt.S(t.Attr.Desc)))
		}
		if t.Extend != "" {
			if r := l.d.TypeByName(t.Extend); r != nil {
				body = append(body, dt.N("Extend", dt.Ref(r.Var)))
			}
		}
		if t.Reference != "" {
			if r := l.d.TypeByName(t.Reference); r != nil {
				body = append(body, dt.N("Reference", dt.Ref(r.Var)))
			}
		}
		body = append(body, l.objectBody(t.Attr.Type)...)
		for _, m := range t.Attr.Meta {
			body = append(body, metaNode(m))
		}
		return n.With(body...).As(t.Var)
	}
	ta, _ := l.typeArg(t.Attr.Type)
	n.Args = append(n.Args, ta)
	body := l.attrBody(t.Attr, true)
	if len(body) > 0 {
		n.With(body...)
	}
	return n.As(t.Var)
}

func (l *lowerer) errorDef(e *ErrorDef) *dt.Node {
	n := dt.N("Error", dt.S(e.Name))
	if e.Type != nil {
		if ta, ok := l.typeArg(e.Type.Type); ok {
			n.Args = append(n.Args, ta)
		}
	}
	if e.Desc != "" {
		if e.Type == nil {
			n.Args = append(n.Args, dt.C("ErrorResult"))
		}
		n.Args = append(n.Args, dt.S(e.Desc))
	}
	var b []*dt.Node
	if e.Temporary {
		b = append(b, dt.N("Temporary"))
	}
	if e.Timeout {
		b = append(b, dt.N("Timeout"))
	}
	if e.Fault {
		b = append(b, dt.N("Fault"))
	}
	if len(b) > 0 {
		n.With(b...)
	}
	return n
}

func (l *lowerer) errorResponse(er *ErrorResponse) *dt.Node {
	var b []*dt.Node
	for _, h := range er.Headers {
		b = append(b, dt.N("Header", dt.S(mapName(h))))
	}
	if er.BodyAttr != "" {
		b = append(b, dt.N("Body", dt.S(er.BodyAttr)))
	}
	if l.pick(3) == 1 {
		// Response("name", func(){ Code(status); ... })
		return dt.N("Response", dt.S(er.Name)).With(append([]*dt.Node{dt.N("Code", dt.C(statusConst(er.Status)))}, b...)...)
	}
	n := dt.N("Response", dt.S(er.Name), dt.C(statusConst(er.Status)))
	if len(b) > 0 {
		n.With(b...)
	}
	return n
}

func mapName(m Mapping) string {
	if m.Wire != "" && m.Wire != m.Attr {
		return m.Attr + ":" + m.Wire
	}
	return m.Attr
}

func (l *lowerer) service(s *Service) *dt.Node {
	var body []*dt.Node
	if s.Desc != "" {
		body = append(body, dt.N("Description", dt.S(s.Desc)))
	}
	for _, m := range s.Meta {
		body = append(body, metaNode(m))
	}
	for _, r := range s.Security {
		body = append(body, l.security(r))
	}
	for _, e := range s.Errors {
		body = append(body, l.errorDef(e))
	}
	if s.BasePath != "" || len(s.ErrorResp) > 0 {
		var h []*dt.Node
		if s.BasePath != "" {
			h = append(h, dt.N("Path", dt.S(s.BasePath)))
			for _, bp := range s.MoreBasePaths {
				h = append(h, dt.N("Path", dt.S(bp)))
			}
		}
		for _, er := range s.ErrorResp {
			h = append(h, l.errorResponse(er))
		}
		body = append(body, dt.N("HTTP").With(h...))
	}
	for _, m := range s.Methods {
		body = append(body, l.method(s, m))
	}
	for _, f := range s.Files {
		body = append(body, dt.N("Files", dt.S(f.Path), dt.S(f.Filename)))
	}
	return dt.N("Service", dt.S(s.Name)).With(body...)
}

func (l *lowerer) payloadLike(fn string, a *Attr, creds []Cred, view string) *dt.Node {
	n := dt.N(fn)
	if a.Type.Kind == Object {
		var body []*dt.Node
		if a.Desc != "" {
			body = append(body, dt.N("Description", dt.S(a.Desc)))
		}
		credAttr := map[string]Cred{}
		for _, c := range creds {
			credAttr[c.Attr] = c
		}
		var req []dt.Arg
		if a.Type.Extend != "" {
			if r := l.d.TypeByName(a.Type.Extend); r != nil {
				body = append(body, dt.N("Extend", dt.Ref(r.Var)))
			}
		}
		if a.Type.Reference != "" {
			if r := l.d.TypeByName(a.Type.Reference); r != nil {
				body = append(body, dt.N("Reference", dt.Ref(r.Var)))
			}
		}
		for _, f := range a.Type.Fields {
			if f.Inherit == "extend" {
				continue
			}
			if c, ok := credAttr[f.Name]; ok {
				body = append(body, l.credAttr(c, f))
			} else if f.Inherit == "reference" {
				body = append(body, dt.N("Attribute", dt.S(f.Name)))
			} else {
				body = append(body, l.attribute(f))
			}
			if f.Required {
				req = append(req, dt.S(f.Name))
			}
		}
		if len(req) > 0 {
			body = append(body, dt.N("Required", req...))
		}
		return n.With(body...)
	}
	ta, _ := l.typeArg(a.Type)
	n.Args = append(n.Args, ta)
	var body []*dt.Node
	if view != "" {
		body = append(body, dt.N("View", dt.S(view)))
	}
	if a.Type.Kind != User {
		body = append(body, l.attrBody(a, true)...)
	} else if a.Desc != "" {
		n.Args = append(n.Args, dt.S(a.Desc))
	}
	if len(body) > 0 {
		n.With(body...)
	}
	return n
}

func (l *lowerer) credAttr(c Cred, f *Field) *dt.Node {
	fn := map[string]string{"username": "Username", "password": "Password", "apikey": "APIKey", "token": "Token", "accesstoken": "AccessToken"}[c.Kind]
	var n *dt.Node
	switch {
	case f.Tag > 0 && c.Kind == "apikey":
		// the *Field variants carry the gRPC field number
		n = dt.N(fn+"Field", dt.I(int64(f.Tag)), dt.S(c.Scheme), dt.S(f.Name))
	case f.Tag > 0:
		n = dt.N(fn+"Field", dt.I(int64(f.Tag)), dt.S(f.Name))
	case c.Kind == "apikey":
		n = dt.N(fn, dt.S(c.Scheme), dt.S(f.Name))
	default:
		n = dt.N(fn, dt.S(f.Name))
	}
	if ta, ok := l.typeArg(f.Attr.Type); ok {
		n.Args = append(n.Args, ta)
	}
	if b := l.attrBody(f.Attr, true); len(b) > 0 {
		n.With(b...)
	}
	return n
}

func (l *lowerer) method(s *Service, m *Method) *dt.Node {
	var body []*dt.Node
	if m.NoSecurity {
		body = append(body, dt.N("NoSecurity"))
	}
	for _, r := range m.Security {
		body = append(body, l.security(r))
	}
	if m.Payload != nil {
		body = append(body, l.payloadLike("Payload", m.Payload, m.Creds, ""))
	}
	if m.StreamingPayload != nil {
		body = append(body, l.payloadLike("StreamingPayload", m.StreamingPayload, nil, ""))
	}
	if m.Result != nil {
		fn := "Result"
		if m.Streaming == "result" || m.Streaming == "bidirectional" {
			fn = "StreamingResult"
		}
		body = append(body, l.payloadLike(fn, m.Result, nil, m.ResultView))
	}
	for _, e := range m.Errors {
		body = append(body, l.errorDef(e))
	}
	if m.HTTP != nil {
		body = append(body, l.httpEndpoint(m))
	}
	if m.GRPC != nil {
		body = append(body, l.grpcEndpoint(m))
	}
	return dt.N("Method", dt.S(m.Name)).With(body...)
}

var verbs = map[string]string{"GET": "GET", "POST": "POST", "PUT": "PUT", "PATCH": "PATCH", "DELETE": "DELETE", "HEAD": "HEAD", "OPTIONS": "OPTIONS", "TRACE": "TRACE", "CONNECT": "CONNECT"}

func (l *lowerer) bodyNode(b *Body) *dt.Node {
	switch b.Mode {
	case "attr":
		return dt.N("Body", dt.S(b.Attr))
	case "empty":
		return dt.N("Body", dt.C("Empty"))
	case "fields":
		var fs []*dt.Node
		for _, f := range b.Fields {
			fs = append(fs, dt.N("Attribute", dt.S(f)))
		}
		return dt.N("Body").With(fs...)
	}
	return nil
}

func (l *lowerer) httpEndpoint(m *Method) *dt.Node {
	h := m.HTTP
	var b []*dt.Node
	for _, r := range h.Routes {
		b = append(b, dt.N(verbs[r.Verb], dt.S(r.Path)))
	}
	for _, mt := range h.Meta {
		b = append(b, metaNode(mt))
	}
	if len(h.Path) > 0 && l.pick(3) == 1 {
		// path parameters declared explicitly, ahead of the query parameters
		for _, p := range h.Path {
			if p.Wire == "" || p.Wire == p.Attr {
				b = append(b, dt.N("Param", dt.S(p.Attr)))
			}
		}
	}
	for _, p := range h.Query {
		b = append(b, l.mappingNode("Param", m, p))
	}
	if h.MapParams != "" {
		if h.MapParams == "*" {
			b = append(b, dt.N("MapParams"))
		} else {
			b = append(b, dt.N("MapParams", dt.S(h.MapParams)))
		}
	}
	for _, p := range h.Headers {
		implicit := false
		for _, ia := range m.ImplicitAuth {
			if ia == p.Attr {
				implicit = true
			}
		}
		if implicit {
			continue
		}
		b = append(b, l.mappingNode("Header", m, p))
	}
	for _, p := range h.Cookies {
		b = append(b, l.mappingNode("Cookie", m, p))
	}
	if h.Body != nil {
		b = append(b, l.bodyNode(h.Body))
	}
	if h.Multipart {
		b = append(b, dt.N("MultipartRequest"))
	}
	if h.SkipReqBody {
		b = append(b, dt.N("SkipRequestBodyEncodeDecode"))
	}
	if h.SkipRespBody {
		b = append(b, dt.N("SkipResponseBodyEncodeDecode"))
	}
	for _, r := range h.Responses {
		n := dt.N("Response", dt.C(statusConst(r.Status)))
		var rb []*dt.Node
		if r.TagName != "" {
			rb = append(rb, dt.N("Tag", dt.S(r.TagName), dt.S(r.TagValue)))
		}
		if r.ContentType != "" {
			rb = append(rb, dt.N("ContentType", dt.S(r.ContentType)))
		}
		for _, p := range r.Headers {
			rb = append(rb, dt.N("Header", dt.S(mapName(p))))
		}
		for _, p := range r.Cookies {
			rb = append(rb, dt.N("Cookie", dt.S(mapName(p))))
		}
		if r.Body != nil {
			rb = append(rb, l.bodyNode(r.Body))
		}
		if l.pick(3) == 1 {
			// Response(func(){ Code(status); ... })
			n = dt.N("Response").With(append([]*dt.Node{dt.N("Code", dt.C(statusConst(r.Status)))}, rb...)...)
		} else if len(rb) > 0 {
			n.With(rb...)
		}
		b = append(b, n)
	}
	for _, er := range h.ErrorResp {
		b = append(b, l.errorResponse(er))
	}
	return dt.N("HTTP").With(b...)
}

// MethodErrorResponses are lowered inside HTTP(): the generator stores them on
// the service with Level "method:<name>".
func (l *lowerer) grpcEndpoint(m *Method) *dt.Node {
	g := m.GRPC
	var b []*dt.Node
	if len(g.Metadata) > 0 {
		var mb []*dt.Node
		for _, p := range g.Metadata {
			mb = append(mb, dt.N("Attribute", dt.S(mapName(p))))
		}
		b = append(b, dt.N("Metadata").With(mb...))
	}
	if len(g.Message) > 0 {
		var mb []*dt.Node
		for _, n := range g.Message {
			mb = append(mb, dt.N("Attribute", dt.S(n)))
		}
		b = append(b, dt.N("Message").With(mb...))
	}
	if g.Code != "" || len(g.Headers) > 0 || len(g.Trailers) > 0 || len(g.RespMessage) > 0 {
		code := g.Code
		if code == "" {
			code = "CodeOK"
		}
		n := dt.N("Response", dt.C(code))
		var rb []*dt.Node
		if len(g.Headers) > 0 {
			var hb []*dt.Node
			for _, p := range g.Headers {
				hb = append(hb, dt.N("Attribute", dt.S(mapName(p))))
			}
			rb = append(rb, dt.N("Headers").With(hb...))
		}
		if len(g.Trailers) > 0 {
			var tb []*dt.Node
			for _, p := range g.Trailers {
				tb = append(tb, dt.N("Attribute", dt.S(mapName(p))))
			}
			rb = append(rb, dt.N("Trailers").With(tb...))
		}
		if len(g.RespMessage) > 0 {
			var mb []*dt.Node
			for _, n := range g.RespMessage {
				mb = append(mb, dt.N("Attribute", dt.S(n)))
			}
			rb = append(rb, dt.N("Message").With(mb...))
		}
		if len(rb) > 0 {
			n.With(rb...)
		}
		b = append(b, n)
	}
	return dt.N("GRPC").With(b...)
}

var statusNames = map[int]string{
	100: "StatusContinue", 101: "StatusSwitchingProtocols",
	200: "StatusOK", 201: "StatusCreated", 202: "StatusAccepted", 203: "StatusNonAuthoritativeInfo", 204: "StatusNoContent", 205: "StatusResetContent", 206: "StatusPartialContent",
	300: "StatusMultipleChoices", 301: "StatusMovedPermanently", 302: "StatusFound", 303: "StatusSeeOther", 304: "StatusNotModified", 307: "StatusTemporaryRedirect", 308: "StatusPermanentRedirect",
	400: "StatusBadRequest", 401: "StatusUnauthorized", 402: "StatusPaymentRequired", 403: "StatusForbidden", 404: "StatusNotFound", 405: "StatusMethodNotAllowed", 406: "StatusNotAcceptable", 408: "StatusRequestTimeout", 409: "StatusConflict", 410: "StatusGone", 411: "StatusLengthRequired", 412: "StatusPreconditionFailed", 413: "StatusRequestEntityTooLarge", 415: "StatusUnsupportedMediaType", 417: "StatusExpectationFailed", 418: "StatusTeapot", 422: "StatusUnprocessableEntity", 423: "StatusLocked", 424: "StatusFailedDependency", 426: "StatusUpgradeRequired", 428: "StatusPreconditionRequired", 429: "StatusTooManyRequests", 431: "StatusRequestHeaderFieldsTooLarge", 451: "StatusUnavailableForLegalReasons",
	500: "StatusInternalServerError", 501: "StatusNotImplemented", 502: "StatusBadGateway", 503: "StatusServiceUnavailable", 504: "StatusGatewayTimeout", 505: "StatusHTTPVersionNotSupported", 507: "StatusInsufficientStorage", 508: "StatusLoopDetected", 510: "StatusNotExtended", 511: "StatusNetworkAuthenticationRequired",
}

func statusConst(code int) string {
	if n, ok := statusNames[code]; ok {
		return n
	}
	return fmt.Sprintf("Status%d", code)
}

// StatusCodes lists the status codes that have a DSL constant, sorted.
func StatusCodes() []int {
	var c []int
	for k := range statusNames {
		c = append(c, k)
	}
	sort.Ints(c)
	return c
}

var _ = strings.TrimSpace
