// Package oracle holds the reference semantics the runtime checks compare
// the generated code with. They are written from the DSL documentation and
// the property statements, not from goa's templates.
package oracle

import (
	"fmt"
	"math"
	"regexp"
	"strings"

	"verif/internal/gen"
	m "verif/internal/model"
	"verif/internal/value"
)

// Canonicalize rewrites a value observed in the harness (Go field names,
// Go-kind numbers) into the model's vocabulary (attribute names, model kinds),
// guided by the attribute's type. Unknown fields are kept under their Go name
// prefixed with "?" so that they show up as differences.
func Canonicalize(d *m.Design, a *m.Attr, v value.V) value.V {
	if a == nil || v.IsNil() {
		return v
	}
	res, _ := d.Resolve(a)
	if res == nil || res.Type == nil {
		return v
	}
	switch res.Type.Kind {
	case m.Object:
		if v.K != "object" {
			return v
		}
		out := value.V{K: "object"}
		for _, f := range v.O {
			var mf *m.Field
			for _, c := range res.Type.Fields {
				if gen.Norm(c.Name) == gen.Norm(f.N) {
					mf = c
					break
				}
			}
			if mf == nil {
				out.O = append(out.O, value.Field{N: "?" + f.N, V: f.V})
				continue
			}
			out.O = append(out.O, value.Field{N: mf.Name, V: Canonicalize(d, mf.Attr, f.V)})
		}
		return out
	case m.Array:
		if v.K != "array" {
			return v
		}
		out := value.V{K: "array", A: make([]value.V, len(v.A))}
		for i, e := range v.A {
			out.A[i] = Canonicalize(d, res.Type.Elem, e)
		}
		return out
	case m.Map:
		if v.K != "map" {
			return v
		}
		out := value.V{K: "map", A: make([]value.V, len(v.A))}
		for i := 0; i+1 < len(v.A); i += 2 {
			out.A[i] = Canonicalize(d, res.Type.Key, v.A[i])
			out.A[i+1] = Canonicalize(d, res.Type.Val, v.A[i+1])
		}
		return out
	case m.Union:
		if v.K != "union" || len(v.A) != 1 {
			return v
		}
		if alt := UnionAlt(res.Type, v.S); alt != nil {
			return value.V{K: "union", S: alt.Name, A: []value.V{Canonicalize(d, alt.Attr, v.A[0])}}
		}
		return v
	case m.Bytes:
		if v.K == "string" {
			return value.Bytes([]byte(v.S))
		}
		if v.K == "bytes" && v.X == nil {
			return value.Bytes([]byte{})
		}
		return v
	case m.Float32, m.Float64:
		if f, ok := v.Num(); ok {
			return value.Float(f)
		}
	case m.Int, m.Int32, m.Int64:
		switch v.K {
		case "uint":
			return value.Int(int64(v.U))
		case "float":
			if v.F == math.Trunc(v.F) {
				return value.Int(int64(v.F))
			}
		}
	case m.UInt, m.UInt32, m.UInt64:
		switch v.K {
		case "int":
			if v.I >= 0 {
				return value.Uint(uint64(v.I))
			}
		case "float":
			if v.F == math.Trunc(v.F) && v.F >= 0 {
				return value.Uint(uint64(v.F))
			}
		}
	case m.Any:
		return canonAny(v)
	}
	return v
}

// UnionAlt returns the alternative of a union a value names: by its design
// name, or by the name of the Go wrapper type the generated code uses for it
// (<UnionTypeName><AltName>), matched on the normalised suffix.
func UnionAlt(t *m.Type, name string) *m.Field {
	for _, f := range t.Fields {
		if f.Name == name {
			return f
		}
	}
	var best *m.Field
	nn := gen.Norm(name)
	for _, f := range t.Fields {
		fn := gen.Norm(f.Name)
		if fn != "" && strings.HasSuffix(nn, fn) && (best == nil || len(fn) > len(gen.Norm(best.Name))) {
			best = f
		}
	}
	return best
}

// canonAny normalises values of type Any the way JSON does (numbers are floats).
func canonAny(v value.V) value.V {
	switch v.K {
	case "int":
		return value.Float(float64(v.I))
	case "uint":
		return value.Float(float64(v.U))
	case "array":
		out := value.V{K: "array", A: make([]value.V, len(v.A))}
		for i, e := range v.A {
			out.A[i] = canonAny(e)
		}
		return out
	}
	return v
}

// ApplyDefaults returns the value the design promises the receiver sees for
// a value sent by the other side: unset attributes that declare a default
// carry it, at every depth.
func ApplyDefaults(d *m.Design, a *m.Attr, v value.V) value.V {
	if a == nil {
		return v
	}
	res, _ := d.Resolve(a)
	if res == nil || res.Type == nil || v.IsNil() {
		return v
	}
	switch res.Type.Kind {
	case m.Object:
		if v.K != "object" {
			return v
		}
		out := value.V{K: "object"}
		for _, f := range res.Type.Fields {
			fv, ok := v.Get(f.Name)
			switch {
			case ok && !fv.IsNil():
				out.O = append(out.O, value.Field{N: f.Name, V: ApplyDefaults(d, f.Attr, fv)})
			case f.Attr.Default != nil:
				out.O = append(out.O, value.Field{N: f.Name, V: Canonicalize(d, f.Attr, *f.Attr.Default)})
			}
		}
		// keep unknown fields so that they are reported
		for _, f := range v.O {
			if d.FieldByName(a, f.N) == nil {
				out.O = append(out.O, f)
			}
		}
		return out
	case m.Array:
		if v.K != "array" {
			return v
		}
		out := value.V{K: "array", A: make([]value.V, len(v.A))}
		for i, e := range v.A {
			out.A[i] = ApplyDefaults(d, res.Type.Elem, e)
		}
		return out
	case m.Map:
		if v.K != "map" {
			return v
		}
		out := value.V{K: "map", A: make([]value.V, len(v.A))}
		for i := 0; i+1 < len(v.A); i += 2 {
			out.A[i] = v.A[i]
			out.A[i+1] = ApplyDefaults(d, res.Type.Val, v.A[i+1])
		}
		return out
	}
	return v
}

// emptyColl reports whether v is an empty array, map or byte string: in Go a
// nil slice or map is an empty one, so "empty" and "unset" are the same value.
func emptyColl(v value.V) bool {
	switch v.K {
	case "array", "map":
		return len(v.A) == 0
	case "bytes":
		return len(v.X) == 0
	}
	return false
}

// Diff describes the first difference between two values ("" when equal).
// Empty collections and unset ones are not told apart.
func Diff(want, got value.V, path string) string {
	if (want.IsNil() || emptyColl(want)) && (got.IsNil() || emptyColl(got)) {
		return ""
	}
	if want.K != got.K {
		return fmt.Sprintf("%s: want %s got %s", orRoot(path), want.Canon(), got.Canon())
	}
	switch want.K {
	case "object":
		names := map[string]bool{}
		for _, f := range want.O {
			names[f.N] = true
		}
		for _, f := range got.O {
			names[f.N] = true
		}
		for n := range names {
			w, _ := want.Get(n)
			g, _ := got.Get(n)
			if w.Canon() != g.Canon() {
				if d := Diff(w, g, path+"."+n); d != "" {
					return d
				}
			}
		}
		return ""
	case "array":
		if len(want.A) != len(got.A) {
			return fmt.Sprintf("%s: want %d elements %s got %d %s", orRoot(path), len(want.A), want.Canon(), len(got.A), got.Canon())
		}
		for i := range want.A {
			if d := Diff(want.A[i], got.A[i], fmt.Sprintf("%s[%d]", path, i)); d != "" {
				return d
			}
		}
		return ""
	}
	if want.K == "map" {
		// compare entry by entry so that empty/unset values inside are tolerated alike
		wm, gm := map[string]value.V{}, map[string]value.V{}
		for i := 0; i+1 < len(want.A); i += 2 {
			wm[want.A[i].Canon()] = want.A[i+1]
		}
		for i := 0; i+1 < len(got.A); i += 2 {
			gm[got.A[i].Canon()] = got.A[i+1]
		}
		if len(wm) != len(gm) {
			return fmt.Sprintf("%s: want %s got %s", orRoot(path), want.Canon(), got.Canon())
		}
		for k, w := range wm {
			g, ok := gm[k]
			if !ok {
				return fmt.Sprintf("%s: key %s missing, got %s", orRoot(path), k, got.Canon())
			}
			if d := Diff(w, g, path+"["+k+"]"); d != "" {
				return d
			}
		}
		return ""
	}
	if want.Canon() != got.Canon() {
		return fmt.Sprintf("%s: want %s got %s", orRoot(path), want.Canon(), got.Canon())
	}
	return ""
}

// IsZero reports whether v is the zero value of its kind.
func IsZero(v value.V) bool {
	switch v.K {
	case "bool":
		return !v.B
	case "int":
		return v.I == 0
	case "uint":
		return v.U == 0
	case "float":
		return v.F == 0
	case "string":
		return v.S == ""
	case "bytes":
		return len(v.X) == 0
	}
	return false
}

// ExpectedVariants returns the values the receiver may legitimately see for a
// value sent through generated Go code: an attribute with a default is a
// non-pointer field, so an explicit zero value cannot be told from "unset" and
// may arrive as zero or as the declared default. The first variant keeps
// zeros; the second replaces every zero of a defaulted attribute by its default.
func ExpectedVariants(d *m.Design, a *m.Attr, sent value.V) []value.V {
	keep := ApplyDefaults(d, a, sent)
	repl := zeroToDefault(d, a, keep)
	if keep.Canon() == repl.Canon() {
		return []value.V{keep}
	}
	return []value.V{keep, repl}
}

func zeroToDefault(d *m.Design, a *m.Attr, v value.V) value.V {
	res, _ := d.Resolve(a)
	if res == nil || res.Type == nil || v.IsNil() {
		return v
	}
	if a.Default != nil && IsZero(v) {
		return Canonicalize(d, a, *a.Default)
	}
	switch res.Type.Kind {
	case m.Object:
		if v.K != "object" {
			return v
		}
		out := value.V{K: "object"}
		for _, f := range v.O {
			mf := d.FieldByName(a, f.N)
			if mf == nil {
				out.O = append(out.O, f)
				continue
			}
			if mf.Attr.Default != nil && IsZero(f.V) {
				out.O = append(out.O, value.Field{N: f.N, V: Canonicalize(d, mf.Attr, *mf.Attr.Default)})
				continue
			}
			out.O = append(out.O, value.Field{N: f.N, V: zeroToDefault(d, mf.Attr, f.V)})
		}
		return out
	case m.Array:
		if v.K != "array" {
			return v
		}
		out := value.V{K: "array", A: make([]value.V, len(v.A))}
		for i, e := range v.A {
			out.A[i] = zeroToDefault(d, res.Type.Elem, e)
		}
		return out
	case m.Map:
		if v.K != "map" {
			return v
		}
		out := value.V{K: "map", A: make([]value.V, len(v.A))}
		for i := 0; i+1 < len(v.A); i += 2 {
			out.A[i] = v.A[i]
			out.A[i+1] = zeroToDefault(d, res.Type.Val, v.A[i+1])
		}
		return out
	}
	return v
}

// DiffAny compares got with each acceptable variant and returns "" if one
// matches, else the difference with the first.
func DiffAny(variants []value.V, got value.V) string {
	first := ""
	for i, w := range variants {
		d := Diff(w, got, "")
		if d == "" {
			return ""
		}
		if i == 0 {
			first = d
		}
	}
	return first
}

func orRoot(p string) string {
	if p == "" {
		return "(value)"
	}
	return strings.TrimPrefix(p, ".")
}

// ---------------------------------------------------------------- validity

// Violation is one broken constraint.
type Violation struct {
	Path string // attribute path, e.g. "body.tags[0]"
	Rule string // goa error name: missing_field, invalid_enum_value, invalid_format, invalid_pattern, invalid_range, invalid_length
}

var patternCache = map[string]*regexp.Regexp{}

// Validate evaluates every constraint the design places on a value.
func Validate(d *m.Design, a *m.Attr, v value.V, path string) []Violation {
	var out []Violation
	if a == nil || v.IsNil() {
		return nil
	}
	res, chain := d.Resolve(a)
	val := gen.MergedValidation(d, a)
	_ = chain
	k := res.Type.Kind
	if len(val.Enum) > 0 {
		ok := false
		for _, e := range val.Enum {
			if Canonicalize(d, a, e).Canon() == Canonicalize(d, a, v).Canon() {
				ok = true
			}
		}
		if !ok {
			out = append(out, Violation{path, "invalid_enum_value"})
		}
	}
	if val.Format != "" && v.K == "string" {
		if !formatOK(val.Format, v.S) {
			out = append(out, Violation{path, "invalid_format"})
		}
	}
	if val.Pattern != "" && v.K == "string" {
		re := patternCache[val.Pattern]
		if re == nil {
			re = regexp.MustCompile(val.Pattern)
			patternCache[val.Pattern] = re
		}
		if !re.MatchString(v.S) {
			out = append(out, Violation{path, "invalid_pattern"})
		}
	}
	if f, ok := v.Num(); ok && k.IsNumeric() {
		if val.Min != nil && f < *val.Min {
			out = append(out, Violation{path, "invalid_range"})
		}
		if val.Max != nil && f > *val.Max {
			out = append(out, Violation{path, "invalid_range"})
		}
		if val.ExclMin != nil && f <= *val.ExclMin {
			out = append(out, Violation{path, "invalid_range"})
		}
		if val.ExclMax != nil && f >= *val.ExclMax {
			out = append(out, Violation{path, "invalid_range"})
		}
	}
	if val.MinLen != nil || val.MaxLen != nil {
		n := -1
		switch v.K {
		case "string", "array", "map", "bytes":
			n = v.Len()
		}
		if n >= 0 {
			if val.MinLen != nil && n < *val.MinLen {
				out = append(out, Violation{path, "invalid_length"})
			}
			if val.MaxLen != nil && n > *val.MaxLen {
				out = append(out, Violation{path, "invalid_length"})
			}
		}
	}
	switch k {
	case m.Object:
		if v.K == "object" {
			for _, f := range res.Type.Fields {
				fv, ok := v.Get(f.Name)
				if !ok || fv.IsNil() {
					if f.Required {
						out = append(out, Violation{join(path, f.Name), "missing_field"})
					}
					continue
				}
				out = append(out, Validate(d, f.Attr, fv, join(path, f.Name))...)
			}
		}
	case m.Array:
		if v.K == "array" {
			for i, e := range v.A {
				out = append(out, Validate(d, res.Type.Elem, e, fmt.Sprintf("%s[%d]", path, i))...)
			}
		}
	case m.Union:
		if v.K == "union" && len(v.A) == 1 {
			if alt := UnionAlt(res.Type, v.S); alt != nil {
				out = append(out, Validate(d, alt.Attr, v.A[0], join(path, alt.Name))...)
			}
		}
	case m.Map:
		if v.K == "map" {
			for i := 0; i+1 < len(v.A); i += 2 {
				out = append(out, Validate(d, res.Type.Key, v.A[i], path+".key")...)
				out = append(out, Validate(d, res.Type.Val, v.A[i+1], fmt.Sprintf("%s[%s]", path, v.A[i].Canon()))...)
			}
		}
	}
	return out
}

func join(p, n string) string {
	if p == "" {
		return n
	}
	return p + "." + n
}

func formatOK(format, s string) bool {
	f, ok := gen.Formats[format]
	if !ok {
		return true
	}
	for _, v := range f.Valid {
		if v == s {
			return true
		}
	}
	for _, v := range f.Invalid {
		if v == s {
			return false
		}
	}
	// values outside the generator's pools are not judged
	return true
}

// Match decides whether got is an acceptable reception of sent for an
// attribute, following the property statement: equal value; an unset attribute
// arrives unset, or carrying the default when the design declares one. Two Go
// facts are folded in: an empty collection and an unset one are the same
// value, and an attribute with a default is a non-pointer field, so an
// explicit zero value cannot be told from "unset" and may arrive as zero or as
// the default. wire relaxes the unset case for bytes observed on the wire
// (the sender may or may not write the default itself).
func Match(d *m.Design, a *m.Attr, sent, got value.V, wire bool, path string) string {
	unsetSent := sent.IsNil() || emptyColl(sent)
	unsetGot := got.IsNil() || emptyColl(got)
	if sent.K == "skip" {
		// attribute outside the rendered view
		if unsetGot {
			return ""
		}
		return fmt.Sprintf("%s: attribute outside the view arrived as %s", orRoot(path), got.Canon())
	}
	if a == nil {
		if sent.Canon() != got.Canon() {
			return fmt.Sprintf("%s: want %s got %s", orRoot(path), sent.Canon(), got.Canon())
		}
		return ""
	}
	var def *value.V
	if a.Default != nil {
		c := Canonicalize(d, a, *a.Default)
		def = &c
	}
	if unsetSent {
		switch {
		case def != nil && !sent.IsNil() && emptyColl(sent) && !emptyColl(*def) && !wire && got.Canon() == def.Canon():
			// an explicitly empty array or map is not "unset": only a nil one gets the default
			return fmt.Sprintf("%s: an explicitly empty collection arrived as the default %s", orRoot(path), def.Canon())
		case def != nil && got.Canon() == def.Canon():
			return ""
		case def != nil && wire && unsetGot:
			return ""
		case def != nil && emptyColl(sent) && unsetGot:
			return ""
		case def != nil:
			return fmt.Sprintf("%s: unset attribute with default %s arrived as %s", orRoot(path), def.Canon(), got.Canon())
		case unsetGot:
			return ""
		}
		return fmt.Sprintf("%s: want unset got %s", orRoot(path), got.Canon())
	}
	if def != nil && IsZero(sent) && got.Canon() == def.Canon() {
		return ""
	}
	if unsetGot {
		return fmt.Sprintf("%s: want %s got unset", orRoot(path), sent.Canon())
	}
	res, _ := d.Resolve(a)
	if res == nil || res.Type == nil {
		return ""
	}
	switch res.Type.Kind {
	case m.Object:
		if sent.K != "object" || got.K != "object" {
			break
		}
		for _, f := range res.Type.Fields {
			sv, _ := sent.Get(f.Name)
			gv, _ := got.Get(f.Name)
			if (sv.IsNil() || emptyColl(sv) || sv.K == "skip") && f.Required && d.Underlying(f.Attr).IsPrimitive() && IsZero(gv) {
				// a required primitive is a non-pointer Go field: "unset" (e.g. an
				// attribute outside the rendered view) is its zero value
				continue
			}
			if msg := Match(d, f.Attr, sv, gv, wire, path+"."+f.Name); msg != "" {
				return msg
			}
		}
		for _, f := range got.O {
			if d.FieldByName(a, f.N) == nil {
				return fmt.Sprintf("%s: unexpected attribute %q = %s", orRoot(path), f.N, f.V.Canon())
			}
		}
		return ""
	case m.Union:
		if sent.K != "union" || got.K != "union" || len(sent.A) != 1 || len(got.A) != 1 {
			break
		}
		if sent.S != got.S {
			return fmt.Sprintf("%s: union alternative %q arrived as alternative %q (%s)", orRoot(path), sent.S, got.S, got.Canon())
		}
		if alt := UnionAlt(res.Type, sent.S); alt != nil {
			return Match(d, alt.Attr, sent.A[0], got.A[0], wire, path+"."+alt.Name)
		}
	case m.Array:
		if sent.K != "array" || got.K != "array" {
			break
		}
		if len(sent.A) != len(got.A) {
			return fmt.Sprintf("%s: want %d elements %s got %d %s", orRoot(path), len(sent.A), sent.Canon(), len(got.A), got.Canon())
		}
		for i := range sent.A {
			if msg := Match(d, res.Type.Elem, sent.A[i], got.A[i], wire, fmt.Sprintf("%s[%d]", path, i)); msg != "" {
				return msg
			}
		}
		return ""
	case m.Map:
		if sent.K != "map" || got.K != "map" {
			break
		}
		gm := map[string]value.V{}
		for i := 0; i+1 < len(got.A); i += 2 {
			gm[got.A[i].Canon()] = got.A[i+1]
		}
		if len(gm) != len(sent.A)/2 {
			return fmt.Sprintf("%s: want %s got %s", orRoot(path), sent.Canon(), got.Canon())
		}
		for i := 0; i+1 < len(sent.A); i += 2 {
			k := Canonicalize(d, res.Type.Key, sent.A[i]).Canon()
			gv, ok := gm[k]
			if !ok {
				return fmt.Sprintf("%s: key %s missing, got %s", orRoot(path), k, got.Canon())
			}
			if msg := Match(d, res.Type.Val, sent.A[i+1], gv, wire, path+"["+k+"]"); msg != "" {
				return msg
			}
		}
		return ""
	}
	if sent.Canon() != got.Canon() {
		return fmt.Sprintf("%s: want %s got %s", orRoot(path), sent.Canon(), got.Canon())
	}
	return ""
}

// ResultViews returns the view names of the result type an attribute refers
// to (nil when the attribute is not a result type with views).
func ResultViews(d *m.Design, a *m.Attr) []string {
	if a == nil || a.Type == nil || a.Type.Kind != m.User {
		return nil
	}
	ut := d.TypeByName(a.Type.User)
	if ut == nil || !ut.Result {
		return nil
	}
	var out []string
	for _, v := range ut.Views {
		out = append(out, v.Name)
	}
	return out
}

// Project returns the part of a result value that the given view exposes:
// exactly the attributes the view lists, nested result types rendered with
// the view named for that attribute in the view (else the attribute's own
// view, else "default"), applied through arrays and maps.
func Project(d *m.Design, a *m.Attr, v value.V, view string) value.V {
	if a == nil || a.Type == nil || v.IsNil() {
		return v
	}
	switch a.Type.Kind {
	case m.Array:
		if v.K != "array" {
			return v
		}
		out := value.V{K: "array", A: make([]value.V, len(v.A))}
		for i, e := range v.A {
			out.A[i] = Project(d, a.Type.Elem, e, view)
		}
		return out
	case m.Map:
		if v.K != "map" {
			return v
		}
		out := value.V{K: "map", A: make([]value.V, len(v.A))}
		for i := 0; i+1 < len(v.A); i += 2 {
			out.A[i] = v.A[i]
			out.A[i+1] = Project(d, a.Type.Val, v.A[i+1], view)
		}
		return out
	case m.Object:
		if v.K != "object" {
			return v
		}
		out := value.V{K: "object"}
		for _, f := range v.O {
			mf := d.FieldByName(a, f.N)
			if mf == nil {
				out.O = append(out.O, f)
				continue
			}
			out.O = append(out.O, value.Field{N: f.N, V: Project(d, mf.Attr, f.V, nestedView(mf.Attr, ""))})
		}
		return out
	case m.User:
		ut := d.TypeByName(a.Type.User)
		if ut == nil {
			return v
		}
		if !ut.Result || len(ut.Views) == 0 {
			return Project(d, ut.Attr, v, "default")
		}
		if ut.CollectionOf != "" {
			// a collection renders every element with the collection's view
			return Project(d, ut.Attr, v, view)
		}
		if view == "" {
			view = "default"
		}
		var vw *m.View
		for _, c := range ut.Views {
			if c.Name == view {
				vw = c
			}
		}
		if vw == nil || v.K != "object" {
			return v
		}
		out := value.V{K: "object"}
		inView := map[string]bool{}
		for _, vf := range vw.Fields {
			inView[vf.Name] = true
			fv, ok := v.Get(vf.Name)
			if !ok {
				continue
			}
			mf := d.FieldByName(ut.Attr, vf.Name)
			if mf == nil {
				continue
			}
			out.O = append(out.O, value.Field{N: vf.Name, V: Project(d, mf.Attr, fv, nestedView(mf.Attr, vf.View))})
		}
		// attributes the view does not expose must arrive unset (no default either)
		for _, f := range ut.Attr.Type.Fields {
			if !inView[f.Name] {
				out.O = append(out.O, value.Field{N: f.Name, V: value.V{K: "skip"}})
			}
		}
		return out
	}
	return v
}

func nestedView(a *m.Attr, viewInView string) string {
	if viewInView != "" {
		return viewInView
	}
	if a.View != "" {
		return a.View
	}
	return "default"
}

// SelectResponse returns the success response the design selects for a
// result value: the first tagged response whose tag attribute has the tag
// value, else the untagged one; nil when the endpoint declares no response.
func SelectResponse(d *m.Design, meth *m.Method, result value.V) *m.Response {
	h := meth.HTTP
	if h == nil || len(h.Responses) == 0 {
		return nil
	}
	var untagged *m.Response
	for _, r := range h.Responses {
		if r.TagName == "" {
			if untagged == nil {
				untagged = r
			}
			continue
		}
		if fv, ok := result.Get(r.TagName); ok && fv.K == "string" && fv.S == r.TagValue {
			return r
		}
	}
	return untagged
}

// DefaultStatus is the status goa documents for an endpoint without an
// explicit response: 200, or 204 when the method has no result.
func DefaultStatus(meth *m.Method) int {
	if meth.Result == nil {
		return 204
	}
	return 200
}

// MaskOutsideView removes from a value observed at the client the attributes
// that the view does not expose when they hold the zero value: a primitive
// with a default or a required primitive is a non-pointer Go field, so "unset"
// shows as zero there. Non-zero values outside the view are kept (and are then
// reported as unexpected by Match).
func MaskOutsideView(d *m.Design, a *m.Attr, got value.V, view string) value.V {
	if a == nil || a.Type == nil || got.IsNil() {
		return got
	}
	switch a.Type.Kind {
	case m.Array:
		if got.K != "array" {
			return got
		}
		out := value.V{K: "array", A: make([]value.V, len(got.A))}
		for i, e := range got.A {
			out.A[i] = MaskOutsideView(d, a.Type.Elem, e, view)
		}
		return out
	case m.Map:
		if got.K != "map" {
			return got
		}
		out := value.V{K: "map", A: make([]value.V, len(got.A))}
		for i := 0; i+1 < len(got.A); i += 2 {
			out.A[i] = got.A[i]
			out.A[i+1] = MaskOutsideView(d, a.Type.Val, got.A[i+1], view)
		}
		return out
	case m.Object:
		if got.K != "object" {
			return got
		}
		out := value.V{K: "object"}
		for _, f := range got.O {
			mf := d.FieldByName(a, f.N)
			if mf == nil {
				out.O = append(out.O, f)
				continue
			}
			out.O = append(out.O, value.Field{N: f.N, V: MaskOutsideView(d, mf.Attr, f.V, nestedView(mf.Attr, ""))})
		}
		return out
	case m.User:
		ut := d.TypeByName(a.Type.User)
		if ut == nil {
			return got
		}
		if !ut.Result || len(ut.Views) == 0 {
			return MaskOutsideView(d, ut.Attr, got, "default")
		}
		if ut.CollectionOf != "" {
			return MaskOutsideView(d, ut.Attr, got, view)
		}
		if view == "" {
			view = "default"
		}
		var vw *m.View
		for _, c := range ut.Views {
			if c.Name == view {
				vw = c
			}
		}
		if vw == nil || got.K != "object" {
			return got
		}
		in := map[string]string{}
		for _, vf := range vw.Fields {
			in[vf.Name] = vf.View
		}
		out := value.V{K: "object"}
		for _, f := range got.O {
			mf := d.FieldByName(ut.Attr, f.N)
			if mf == nil {
				out.O = append(out.O, f)
				continue
			}
			vv, inView := in[f.N]
			if !inView {
				if IsZero(f.V) {
					continue
				}
				out.O = append(out.O, f)
				continue
			}
			out.O = append(out.O, value.Field{N: f.N, V: MaskOutsideView(d, mf.Attr, f.V, nestedView(mf.Attr, vv))})
		}
		return out
	}
	return got
}

// IsRecursive reports whether the named user type refers to itself (directly
// or through other user types).
func IsRecursive(d *m.Design, name string) bool {
	seen := map[string]bool{}
	var walk func(t *m.Type) bool
	walk = func(t *m.Type) bool {
		if t == nil {
			return false
		}
		switch t.Kind {
		case m.User:
			if t.User == name {
				return true
			}
			if seen[t.User] {
				return false
			}
			seen[t.User] = true
			if ut := d.TypeByName(t.User); ut != nil && ut.Attr != nil {
				return walk(ut.Attr.Type)
			}
		case m.Array:
			return walk(t.Elem.Type)
		case m.Map:
			return walk(t.Val.Type) || walk(t.Key.Type)
		case m.Object, m.Union:
			for _, f := range t.Fields {
				if walk(f.Attr.Type) {
					return true
				}
			}
		}
		return false
	}
	ut := d.TypeByName(name)
	if ut == nil || ut.Attr == nil {
		return false
	}
	return walk(ut.Attr.Type)
}
