package oracle

import (
	"encoding/base64"
	"encoding/json"
	"fmt"
	"math"
	"net/http"
	"net/url"
	"sort"
	"strconv"
	"strings"

	"verif/harness"
	"verif/internal/gen"
	m "verif/internal/model"
	"verif/internal/value"
)

// FullPaths returns the complete path pattern of every route of a method:
// API base path + service base path + route path.
func FullPaths(d *m.Design, s *m.Service, meth *m.Method) []string {
	var out []string
	for _, r := range meth.HTTP.Routes {
		out = append(out, JoinPath(d.API.BasePath, s.BasePath, r.Path))
	}
	return out
}

// FullRoute is one mounted (verb, pattern) pair of a method.
type FullRoute struct {
	Verb, Pattern string
	Route         int // index into meth.HTTP.Routes
}

// AllFullRoutes returns every (verb, pattern) a method is mounted under: each
// route under each base path of the service (an absolute route ignores them).
func AllFullRoutes(d *m.Design, s *m.Service, meth *m.Method) []FullRoute {
	var out []FullRoute
	seen := map[string]bool{}
	for i, r := range meth.HTTP.Routes {
		for _, bp := range s.BasePaths() {
			p := JoinPath(d.API.BasePath, bp, r.Path)
			if seen[r.Verb+" "+p] {
				continue
			}
			seen[r.Verb+" "+p] = true
			out = append(out, FullRoute{Verb: r.Verb, Pattern: p, Route: i})
		}
	}
	return out
}

// JoinPath concatenates base paths and a route path.
func JoinPath(parts ...string) string {
	if n := len(parts); n > 0 && strings.HasPrefix(parts[n-1], "//") {
		return parts[n-1][1:]
	}
	var segs []string
	for _, p := range parts {
		for _, s := range strings.Split(p, "/") {
			if s != "" {
				segs = append(segs, s)
			}
		}
	}
	return "/" + strings.Join(segs, "/")
}

// MatchPath matches an escaped request path against a pattern and returns the
// escaped text captured by each {name}.
func MatchPath(pattern, escapedPath string) (map[string]string, bool) {
	ps := strings.Split(strings.Trim(pattern, "/"), "/")
	es := strings.Split(strings.Trim(escapedPath, "/"), "/")
	vars := map[string]string{}
	if pattern == "/" {
		ps = nil
	}
	if strings.Trim(escapedPath, "/") == "" {
		es = nil
	}
	for i, p := range ps {
		if strings.HasPrefix(p, "{*") && strings.HasSuffix(p, "}") {
			vars[p[2:len(p)-1]] = strings.Join(es[min(i, len(es)):], "/")
			return vars, true
		}
		if i >= len(es) {
			return nil, false
		}
		if strings.HasPrefix(p, "{") && strings.HasSuffix(p, "}") {
			vars[p[1:len(p)-1]] = es[i]
			continue
		}
		if p != es[i] {
			return nil, false
		}
	}
	if len(es) != len(ps) {
		return nil, false
	}
	return vars, true
}

// BuildPath substitutes escaped values into a pattern.
func BuildPath(pattern string, vars map[string]string) string {
	ps := strings.Split(strings.Trim(pattern, "/"), "/")
	for i, p := range ps {
		if strings.HasPrefix(p, "{") && strings.HasSuffix(p, "}") {
			ps[i] = vars[strings.TrimPrefix(p[1:len(p)-1], "*")]
		}
	}
	return "/" + strings.Join(ps, "/")
}

// ParseScalar parses the wire text of a primitive value of kind k.
func ParseScalar(k m.Kind, s string) (value.V, bool) {
	switch {
	case k == m.Boolean:
		b, err := strconv.ParseBool(s)
		return value.Bool(b), err == nil
	case k == m.Int || k == m.Int64:
		i, err := strconv.ParseInt(s, 10, 64)
		return value.Int(i), err == nil
	case k == m.Int32:
		i, err := strconv.ParseInt(s, 10, 32)
		return value.Int(i), err == nil
	case k == m.UInt || k == m.UInt64:
		u, err := strconv.ParseUint(s, 10, 64)
		return value.Uint(u), err == nil
	case k == m.UInt32:
		u, err := strconv.ParseUint(s, 10, 32)
		return value.Uint(u), err == nil
	case k == m.Float32:
		f, err := strconv.ParseFloat(s, 32)
		return value.Float(f), err == nil
	case k == m.Float64:
		f, err := strconv.ParseFloat(s, 64)
		return value.Float(f), err == nil
	case k == m.String:
		return value.Str(s), true
	case k == m.Bytes:
		return value.Bytes([]byte(s)), true
	}
	return value.Str(s), true
}

// wireMatches compares the texts found on the wire with the value sent.
func wireMatches(d *m.Design, a *m.Attr, texts []string, v value.V, splitComma bool) string {
	res, _ := d.Resolve(a)
	k := res.Type.Kind
	if k == m.Array {
		ek := d.Underlying(res.Type.Elem)
		if splitComma && len(texts) != len(v.A) {
			var flat []string
			for _, t := range texts {
				for _, p := range strings.Split(t, ",") {
					flat = append(flat, strings.TrimSpace(p))
				}
			}
			texts = flat
		}
		if len(texts) != len(v.A) {
			return fmt.Sprintf("want %d values %s, wire has %q", len(v.A), v.Canon(), texts)
		}
		for i, t := range texts {
			pv, ok := ParseScalar(ek, t)
			if !ok || Canonicalize(d, res.Type.Elem, pv).Canon() != Canonicalize(d, res.Type.Elem, v.A[i]).Canon() {
				return fmt.Sprintf("element %d: want %s, wire has %q", i, v.A[i].Canon(), t)
			}
		}
		return ""
	}
	if len(texts) != 1 {
		return fmt.Sprintf("want one value %s, wire has %q", v.Canon(), texts)
	}
	pv, ok := ParseScalar(k, texts[0])
	if !ok || Canonicalize(d, a, pv).Canon() != Canonicalize(d, a, v).Canon() {
		return fmt.Sprintf("want %s, wire has %q", v.Canon(), texts[0])
	}
	return ""
}

// CheckRequestLocations verifies that every payload attribute travels in
// exactly the location the design assigns it and nowhere else.
func CheckRequestLocations(d *m.Design, s *m.Service, meth *m.Method, sent value.V, req harness.ReqObs) string {
	h := meth.HTTP
	if meth.Payload == nil {
		return ""
	}
	// route
	patterns := FullPaths(d, s, meth)
	var vars map[string]string
	matched := -1
	for i, p := range patterns {
		if v, ok := MatchPath(p, req.RawPath); ok && strings.EqualFold(req.Method, h.Routes[i].Verb) {
			vars, matched = v, i
			break
		}
	}
	if matched < 0 {
		return fmt.Sprintf("request %s %s matches none of the designed routes %v", req.Method, req.RawPath, patterns)
	}
	q, err := url.ParseQuery(req.RawQuery)
	if err != nil {
		return "query string does not parse: " + err.Error()
	}
	hdr := http.Header(req.Header)
	cookies := map[string]string{}
	{
		r := http.Request{Header: hdr}
		for _, c := range r.Cookies() {
			cookies[c.Name] = c.Value
		}
	}
	fields := d.ObjectFields(meth.Payload)
	get := func(name string) (value.V, *m.Attr, bool) {
		if fields == nil {
			return sent, meth.Payload, !sent.IsNil()
		}
		f := d.FieldByName(meth.Payload, name)
		if f == nil {
			return value.Nil(), nil, false
		}
		v, ok := sent.Get(name)
		return v, f.Attr, ok && !v.IsNil()
	}
	for _, p := range h.Path {
		v, a, set := get(p.Attr)
		txt, ok := vars[p.WireName()]
		if !ok {
			return fmt.Sprintf("path parameter %q not in the matched route %s", p.Attr, patterns[matched])
		}
		if !set {
			continue
		}
		dec, err := url.PathUnescape(txt)
		if err != nil {
			return fmt.Sprintf("path segment %q is not a valid escape: %v", txt, err)
		}
		if a != nil && d.Underlying(a) == m.Array {
			if msg := wireMatches(d, a, strings.Split(dec, ","), v, false); msg != "" {
				return fmt.Sprintf("path parameter %q: %s", p.Attr, msg)
			}
			continue
		}
		if msg := wireMatches(d, a, []string{dec}, v, false); msg != "" {
			return fmt.Sprintf("path parameter %q: %s", p.Attr, msg)
		}
	}
	allowedQ := map[string]bool{}
	for _, p := range h.Query {
		allowedQ[p.WireName()] = true
		v, a, set := get(p.Attr)
		texts, present := q[p.WireName()]
		if !set {
			if present && !carriesDefault(d, a, texts, false) {
				return fmt.Sprintf("query parameter %q = %q present although attribute %q is unset", p.WireName(), texts, p.Attr)
			}
			continue
		}
		if !present {
			return fmt.Sprintf("query parameter %q missing for attribute %q = %s", p.WireName(), p.Attr, v.Canon())
		}
		if msg := wireMatches(d, a, texts, v, false); msg != "" {
			return fmt.Sprintf("query parameter %q: %s", p.WireName(), msg)
		}
	}
	if h.MapParams == "" {
		for k := range q {
			if !allowedQ[k] {
				return fmt.Sprintf("query string carries %q which the design does not define", k)
			}
		}
	}
	for _, p := range h.Headers {
		v, a, set := get(p.Attr)
		texts, present := hdr[http.CanonicalHeaderKey(p.WireName())]
		if !set {
			if present && !carriesDefault(d, a, texts, true) {
				return fmt.Sprintf("header %q = %q present although attribute %q is unset", p.WireName(), texts, p.Attr)
			}
			continue
		}
		if !present {
			return fmt.Sprintf("header %q missing for attribute %q = %s", p.WireName(), p.Attr, v.Canon())
		}
		if msg := wireMatches(d, a, texts, v, true); msg != "" {
			return fmt.Sprintf("header %q: %s", p.WireName(), msg)
		}
	}
	for _, p := range h.Cookies {
		v, a, set := get(p.Attr)
		txt, present := cookies[p.WireName()]
		if !set {
			if present && !carriesDefault(d, a, []string{txt}, false) {
				return fmt.Sprintf("cookie %q present although attribute %q is unset", p.WireName(), p.Attr)
			}
			continue
		}
		if !present {
			return fmt.Sprintf("cookie %q missing for attribute %q = %s", p.WireName(), p.Attr, v.Canon())
		}
		if msg := wireMatches(d, a, []string{txt}, v, false); msg != "" {
			return fmt.Sprintf("cookie %q: %s", p.WireName(), msg)
		}
	}
	// body
	bodyAttrs := gen.BodyAttrs(d, meth)
	if fields == nil {
		inBody := len(h.Path) == 0 && len(h.Query) == 0 && len(h.Headers) == 0 && len(h.Cookies) == 0
		if !inBody {
			if len(req.Body) != 0 {
				return fmt.Sprintf("request has a body %q although the payload travels elsewhere", trunc(req.Body))
			}
			return ""
		}
		return jsonEquals(d, meth.Payload, req.Body, sent)
	}
	if h.Body != nil && h.Body.Mode == "attr" {
		v, a, set := get(h.Body.Attr)
		if !set {
			return ""
		}
		return jsonEquals(d, a, req.Body, v)
	}
	var setBody []string
	optionalEmpty := map[string]bool{}
	unsetDefault := map[string]*m.Attr{}
	for _, n := range bodyAttrs {
		v, a, set := get(n)
		if set {
			if emptyColl(v) {
				// an empty collection may be sent or omitted (nil and empty are the same Go value)
				optionalEmpty[n] = true
				continue
			}
			setBody = append(setBody, n)
		} else if a != nil && a.Default != nil {
			// an unset attribute with a declared default may be omitted or
			// sent carrying that default (the client may apply it)
			unsetDefault[n] = a
		}
	}
	if len(bodyAttrs) == 0 {
		if len(req.Body) != 0 {
			return fmt.Sprintf("request has a body %q although no attribute is mapped to the body", trunc(req.Body))
		}
		return ""
	}
	var obj map[string]json.RawMessage
	if err := json.Unmarshal(req.Body, &obj); err != nil {
		return fmt.Sprintf("request body is not a JSON object: %v (%q)", err, trunc(req.Body))
	}
	var keys []string
	for k, raw := range obj {
		if string(raw) == "null" || optionalEmpty[k] {
			continue
		}
		if a := unsetDefault[k]; a != nil {
			if msg := jsonEquals(d, a, raw, *a.Default); msg != "" {
				return fmt.Sprintf("body attribute %q is unset and has a default, the body carries another value: %s", k, msg)
			}
			continue
		}
		keys = append(keys, k)
	}
	sort.Strings(keys)
	sort.Strings(setBody)
	if strings.Join(keys, ",") != strings.Join(setBody, ",") {
		return fmt.Sprintf("request body carries keys %v, the design puts %v in the body", keys, setBody)
	}
	for _, n := range setBody {
		v, a, _ := get(n)
		if msg := jsonEquals(d, a, obj[n], v); msg != "" {
			return fmt.Sprintf("body attribute %q: %s", n, msg)
		}
	}
	return ""
}

// carriesDefault reports whether the wire texts of an unset attribute are
// exactly its declared default (the sender may apply the default itself).
func carriesDefault(d *m.Design, a *m.Attr, texts []string, header bool) bool {
	if a == nil || a.Default == nil {
		return false
	}
	return wireMatches(d, a, texts, Canonicalize(d, a, *a.Default), header) == ""
}

func trunc(b []byte) string {
	if len(b) > 200 {
		return string(b[:200]) + "…"
	}
	return string(b)
}

// jsonEquals decodes JSON text according to the attribute's type and compares it with v.
func jsonEquals(d *m.Design, a *m.Attr, raw []byte, v value.V) string {
	got, err := FromJSON(d, a, raw)
	if err != nil {
		return fmt.Sprintf("body does not decode as %s: %v (%q)", d.Underlying(a), err, trunc(raw))
	}
	if msg := Match(d, a, Canonicalize(d, a, v), got, true, ""); msg != "" {
		return "JSON on the wire differs from the value sent: " + msg
	}
	return ""
}

// FromJSON decodes JSON text into a value tree following the model type.
func FromJSON(d *m.Design, a *m.Attr, raw []byte) (value.V, error) {
	dec := json.NewDecoder(strings.NewReader(string(raw)))
	dec.UseNumber()
	var x any
	if err := dec.Decode(&x); err != nil {
		return value.Nil(), err
	}
	return fromJSONValue(d, a, x)
}

func fromJSONValue(d *m.Design, a *m.Attr, x any) (value.V, error) {
	if x == nil {
		return value.Nil(), nil
	}
	res, _ := d.Resolve(a)
	k := res.Type.Kind
	switch {
	case k == m.Boolean:
		b, ok := x.(bool)
		if !ok {
			return value.Nil(), fmt.Errorf("want boolean, have %T", x)
		}
		return value.Bool(b), nil
	case k.IsNumeric():
		n, ok := x.(json.Number)
		if !ok {
			return value.Nil(), fmt.Errorf("want number, have %T", x)
		}
		if k.IsFloat() {
			f, err := strconv.ParseFloat(string(n), 64)
			if k == m.Float32 {
				f = float64(float32(f))
			}
			return value.Float(f), err
		}
		if k.IsUnsigned() {
			u, err := strconv.ParseUint(string(n), 10, 64)
			return value.Uint(u), err
		}
		i, err := strconv.ParseInt(string(n), 10, 64)
		return value.Int(i), err
	case k == m.String:
		s, ok := x.(string)
		if !ok {
			return value.Nil(), fmt.Errorf("want string, have %T", x)
		}
		return value.Str(s), nil
	case k == m.Bytes:
		s, ok := x.(string)
		if !ok {
			return value.Nil(), fmt.Errorf("want base64 string, have %T", x)
		}
		b, err := base64.StdEncoding.DecodeString(s)
		if b == nil {
			b = []byte{}
		}
		return value.Bytes(b), err
	case k == m.Any:
		return anyFromJSON(x), nil
	case k == m.Array:
		l, ok := x.([]any)
		if !ok {
			return value.Nil(), fmt.Errorf("want array, have %T", x)
		}
		out := value.V{K: "array", A: make([]value.V, len(l))}
		for i, e := range l {
			ev, err := fromJSONValue(d, res.Type.Elem, e)
			if err != nil {
				return value.Nil(), err
			}
			out.A[i] = ev
		}
		return out, nil
	case k == m.Map:
		mm, ok := x.(map[string]any)
		if !ok {
			return value.Nil(), fmt.Errorf("want object (map), have %T", x)
		}
		out := value.V{K: "map"}
		var keys []string
		for key := range mm {
			keys = append(keys, key)
		}
		sort.Strings(keys)
		kk := d.Underlying(res.Type.Key)
		for _, key := range keys {
			kv, ok := ParseScalar(kk, key)
			if !ok {
				return value.Nil(), fmt.Errorf("map key %q is not a %s", key, kk)
			}
			ev, err := fromJSONValue(d, res.Type.Val, mm[key])
			if err != nil {
				return value.Nil(), err
			}
			out.A = append(out.A, Canonicalize(d, res.Type.Key, kv), ev)
		}
		return out, nil
	case k == m.Union:
		// unions travel as {"Type": "<alternative>", "Value": "<JSON text of the value>"}
		mm, ok := x.(map[string]any)
		if !ok {
			return value.Nil(), fmt.Errorf("want union object, have %T", x)
		}
		tn, ok1 := mm["Type"].(string)
		vs, ok2 := mm["Value"].(string)
		if !ok1 || !ok2 || len(mm) != 2 {
			return value.Nil(), fmt.Errorf("union on the wire must be {Type: string, Value: string}, have %v", mm)
		}
		alt := UnionAlt(res.Type, tn)
		if alt == nil || alt.Name != tn {
			return value.Nil(), fmt.Errorf("union Type %q is not an alternative of the design", tn)
		}
		inner, err := FromJSON(d, alt.Attr, []byte(vs))
		if err != nil {
			return value.Nil(), fmt.Errorf("union Value of alternative %q: %v", tn, err)
		}
		return value.V{K: "union", S: alt.Name, A: []value.V{inner}}, nil
	case k == m.Object:
		mm, ok := x.(map[string]any)
		if !ok {
			return value.Nil(), fmt.Errorf("want object, have %T", x)
		}
		out := value.V{K: "object"}
		for _, f := range res.Type.Fields {
			e, present := mm[f.Name]
			if !present || e == nil {
				continue
			}
			ev, err := fromJSONValue(d, f.Attr, e)
			if err != nil {
				return value.Nil(), fmt.Errorf("%s: %w", f.Name, err)
			}
			out.O = append(out.O, value.Field{N: f.Name, V: ev})
		}
		for key := range mm {
			if d.FieldByName(a, key) == nil {
				out.O = append(out.O, value.Field{N: "?" + key, V: anyFromJSON(mm[key])})
			}
		}
		return out, nil
	}
	return anyFromJSON(x), nil
}

func anyFromJSON(x any) value.V {
	switch t := x.(type) {
	case nil:
		return value.Nil()
	case bool:
		return value.Bool(t)
	case json.Number:
		f, _ := strconv.ParseFloat(string(t), 64)
		return value.Float(f)
	case float64:
		return value.Float(t)
	case string:
		return value.Str(t)
	case []any:
		out := value.V{K: "array", A: make([]value.V, len(t))}
		for i, e := range t {
			out.A[i] = anyFromJSON(e)
		}
		return out
	case map[string]any:
		out := value.V{K: "map"}
		var keys []string
		for k := range t {
			keys = append(keys, k)
		}
		sort.Strings(keys)
		for _, k := range keys {
			out.A = append(out.A, value.Str(k), anyFromJSON(t[k]))
		}
		return out
	}
	return value.Str(fmt.Sprint(x))
}

// HasBoundary reports whether a value contains one of the boundary classes
// the properties name: URL-reserved, percent, space or non-ASCII characters,
// 64-bit extremes, empty or nested collections.
func HasBoundary(v value.V) bool {
	switch v.K {
	case "string":
		if strings.ContainsAny(v.S, "%+/?&=# ") {
			return true
		}
		for _, r := range v.S {
			if r >= 0x80 {
				return true
			}
		}
	case "int":
		return v.I == math.MaxInt64 || v.I == math.MinInt64 || v.I == math.MaxInt32 || v.I == math.MinInt32
	case "uint":
		return v.U == math.MaxUint64 || v.U == math.MaxUint32
	case "float":
		return math.Abs(v.F) >= 1e15 || (v.F != 0 && math.Abs(v.F) < 1e-5)
	case "array", "map":
		if len(v.A) == 0 {
			return true
		}
		for _, e := range v.A {
			if e.K == "array" || e.K == "map" || e.K == "object" || HasBoundary(e) {
				return true
			}
		}
	case "object":
		for _, f := range v.O {
			if HasBoundary(f.V) {
				return true
			}
		}
	}
	return false
}

// CheckResponseLocations verifies that every result attribute travels in the
// location the selected response assigns it: headers, cookies, body.
func CheckResponseLocations(d *m.Design, meth *m.Method, r *m.Response, result value.V, resp *harness.RawResp) string {
	if meth.Result == nil {
		if len(resp.Body) != 0 {
			return fmt.Sprintf("response has a body %q although the method has no result", trunc(resp.Body))
		}
		return ""
	}
	hdr := http.Header(resp.Header)
	fields := d.ObjectFields(meth.Result)
	if fields == nil {
		// primitive, array or map result: the body
		got, err := FromJSON(d, meth.Result, resp.Body)
		if err != nil {
			return fmt.Sprintf("response body does not decode as %s: %v (%q)", d.Underlying(meth.Result), err, trunc(resp.Body))
		}
		if msg := Match(d, meth.Result, Canonicalize(d, meth.Result, result), got, true, ""); msg != "" {
			return "response body differs from the result: " + msg
		}
		return ""
	}
	get := func(name string) (value.V, *m.Attr, bool) {
		f := d.FieldByName(meth.Result, name)
		if f == nil {
			return value.Nil(), nil, false
		}
		v, ok := result.Get(name)
		if v.K == "skip" {
			return value.Nil(), f.Attr, false
		}
		return v, f.Attr, ok && !v.IsNil()
	}
	mapped := map[string]bool{}
	if r != nil {
		for _, p := range r.Headers {
			mapped[p.Attr] = true
			v, a, set := get(p.Attr)
			texts, present := hdr[http.CanonicalHeaderKey(p.WireName())]
			if !set {
				if present && a != nil && a.Default == nil {
					return fmt.Sprintf("response header %q present although attribute %q is unset", p.WireName(), p.Attr)
				}
				continue
			}
			if emptyColl(v) && !present {
				continue
			}
			if !present {
				return fmt.Sprintf("response header %q missing for attribute %q = %s", p.WireName(), p.Attr, v.Canon())
			}
			if msg := wireMatches(d, a, texts, v, true); msg != "" {
				if a.Default != nil && IsZero(v) {
					if wireMatches(d, a, texts, Canonicalize(d, a, *a.Default), true) == "" {
						continue
					}
				}
				return fmt.Sprintf("response header %q: %s", p.WireName(), msg)
			}
		}
		cookies := map[string]string{}
		rr := http.Response{Header: hdr}
		for _, c := range rr.Cookies() {
			cookies[c.Name] = c.Value
		}
		for _, p := range r.Cookies {
			mapped[p.Attr] = true
			v, a, set := get(p.Attr)
			txt, present := cookies[p.WireName()]
			if !set {
				if present && a != nil && a.Default == nil {
					return fmt.Sprintf("response cookie %q present although attribute %q is unset", p.WireName(), p.Attr)
				}
				continue
			}
			if !present {
				return fmt.Sprintf("response cookie %q missing for attribute %q = %s", p.WireName(), p.Attr, v.Canon())
			}
			if msg := wireMatches(d, a, []string{txt}, v, false); msg != "" {
				if a.Default != nil && IsZero(v) && wireMatches(d, a, []string{txt}, Canonicalize(d, a, *a.Default), false) == "" {
					continue
				}
				return fmt.Sprintf("response cookie %q: %s", p.WireName(), msg)
			}
		}
		if r.Body != nil && r.Body.Mode == "attr" {
			v, a, set := get(r.Body.Attr)
			if !set && len(resp.Body) == 0 {
				return ""
			}
			got, err := FromJSON(d, a, resp.Body)
			if err != nil {
				return fmt.Sprintf("response body does not decode as attribute %q: %v (%q)", r.Body.Attr, err, trunc(resp.Body))
			}
			if msg := Match(d, a, Canonicalize(d, a, v), got, true, ""); msg != "" {
				return fmt.Sprintf("response body (attribute %q) differs: %s", r.Body.Attr, msg)
			}
			return ""
		}
	}
	// default body: every attribute not mapped to a header or cookie
	var bodyNames []string
	for _, f := range fields {
		if !mapped[f.Name] {
			bodyNames = append(bodyNames, f.Name)
		}
	}
	if len(bodyNames) == 0 {
		if len(strings.TrimSpace(string(resp.Body))) != 0 {
			return fmt.Sprintf("response has a body %q although every attribute is mapped to headers/cookies", trunc(resp.Body))
		}
		return ""
	}
	var objm map[string]json.RawMessage
	if err := json.Unmarshal(resp.Body, &objm); err != nil {
		return fmt.Sprintf("response body is not a JSON object: %v (%q)", err, trunc(resp.Body))
	}
	allowed := map[string]bool{}
	for _, n := range bodyNames {
		allowed[n] = true
	}
	for k := range objm {
		if !allowed[k] {
			return fmt.Sprintf("response body carries key %q which the design does not put in the body (body attributes: %v)", k, bodyNames)
		}
	}
	for _, n := range bodyNames {
		v, a, _ := get(n)
		raw, present := objm[n]
		var got value.V
		if present && string(raw) != "null" {
			g, err := FromJSON(d, a, raw)
			if err != nil {
				return fmt.Sprintf("response body attribute %q does not decode: %v", n, err)
			}
			got = g
		} else {
			got = value.Nil()
		}
		if msg := Match(d, a, Canonicalize(d, a, v), got, true, n); msg != "" {
			return "response body differs from the result: " + msg
		}
	}
	return ""
}
