// Package stats collects what a check actually explored (case counts,
// distinct non-trivial cases, class histogram, samples, exclusions, probe
// hits) and writes it to the file named by $VERIF_STATS so that the driver can
// merge shards into evidence/<id>.json.
package stats

import (
	"crypto/sha256"
	"encoding/binary"
	"encoding/json"
	"fmt"
	"os"
	"sort"
	"sync"
	"testing"
)

// File is the on-disk form of one process' statistics.
type File struct {
	Evaluations int64            `json:"evaluations"`
	Nontrivial  []uint64         `json:"nontrivial_hashes"`
	Classes     map[string]int64 `json:"classes"`
	Excluded    map[string]int64 `json:"excluded"`
	Samples     []any            `json:"samples"`
	NTSamples   []any            `json:"nt_samples"`
	Probes      []Probe          `json:"probes"`
	Notes       []string         `json:"notes"`
	Exhaustive  map[string]bool  `json:"exhaustive,omitempty"`
}

// Probe is the outcome of re-creating the minimal input of a known finding.
type Probe struct {
	Finding string `json:"finding"`
	Hit     bool   `json:"hit"`
	What    string `json:"what"`
}

var (
	mu  sync.Mutex
	cur = File{Classes: map[string]int64{}, Excluded: map[string]int64{}, Exhaustive: map[string]bool{}}
	nt  = map[uint64]struct{}{}
)

const maxSamples = 6

func hash(s string) uint64 {
	h := sha256.Sum256([]byte(s))
	return binary.LittleEndian.Uint64(h[:8])
}

// Case records one executed case. key identifies the case (canonical text);
// nontrivial tells whether it satisfies the property's non-triviality rule.
func Case(key string, nontrivial bool) {
	mu.Lock()
	defer mu.Unlock()
	cur.Evaluations++
	if nontrivial {
		nt[hash(key)] = struct{}{}
	}
}

// CaseSample is Case plus keeping the value as a sample when there is room.
func CaseSample(key string, nontrivial bool, sample any) {
	Case(key, nontrivial)
	mu.Lock()
	defer mu.Unlock()
	if nontrivial {
		if len(cur.NTSamples) < maxSamples {
			cur.NTSamples = append(cur.NTSamples, sample)
		}
	} else if len(cur.Samples) < maxSamples {
		cur.Samples = append(cur.Samples, sample)
	}
}

// Class increments a histogram bucket (generator health report).
func Class(label string) {
	mu.Lock()
	cur.Classes[label]++
	mu.Unlock()
}

// ClassN adds n to a histogram bucket.
func ClassN(label string, n int64) {
	mu.Lock()
	cur.Classes[label] += n
	mu.Unlock()
}

// Excluded counts a case steered away from an open known finding.
func Excluded(finding string) {
	mu.Lock()
	cur.Excluded[finding]++
	mu.Unlock()
}

// Note records a free-text note for the evidence file.
func Note(format string, a ...any) {
	mu.Lock()
	if len(cur.Notes) < 50 {
		cur.Notes = append(cur.Notes, fmt.Sprintf(format, a...))
	}
	mu.Unlock()
}

// Exhaustive marks a finite sub-space as completely enumerated.
func Exhaustive(space string) {
	mu.Lock()
	cur.Exhaustive[space] = true
	mu.Unlock()
}

// ProbeResult records the outcome of a known-finding probe and prints the
// line the driver looks for.
func ProbeResult(finding string, hit bool, what string) {
	mu.Lock()
	cur.Probes = append(cur.Probes, Probe{finding, hit, what})
	mu.Unlock()
	if hit {
		fmt.Printf("PROBE-HIT %s %s\n", finding, what)
	} else {
		fmt.Printf("PROBE-MISS %s\n", finding)
	}
}

// Flush writes the statistics to $VERIF_STATS (no-op when unset).
func Flush() {
	path := os.Getenv("VERIF_STATS")
	if path == "" {
		return
	}
	mu.Lock()
	defer mu.Unlock()
	cur.Nontrivial = cur.Nontrivial[:0]
	for h := range nt {
		cur.Nontrivial = append(cur.Nontrivial, h)
	}
	sort.Slice(cur.Nontrivial, func(i, j int) bool { return cur.Nontrivial[i] < cur.Nontrivial[j] })
	b, err := json.Marshal(&cur)
	if err != nil {
		fmt.Fprintln(os.Stderr, "stats: marshal:", err)
		return
	}
	if err := os.WriteFile(path, b, 0o644); err != nil {
		fmt.Fprintln(os.Stderr, "stats: write:", err)
	}
}

// Main is a TestMain body: run the tests, flush, exit.
func Main(m *testing.M) {
	code := m.Run()
	Flush()
	os.Exit(code)
}

// Merge folds b into a.
func Merge(a *File, b *File, seen map[uint64]struct{}) {
	a.Evaluations += b.Evaluations
	for _, h := range b.Nontrivial {
		seen[h] = struct{}{}
	}
	if a.Classes == nil {
		a.Classes = map[string]int64{}
	}
	if a.Excluded == nil {
		a.Excluded = map[string]int64{}
	}
	if a.Exhaustive == nil {
		a.Exhaustive = map[string]bool{}
	}
	for k, v := range b.Classes {
		a.Classes[k] += v
	}
	for k, v := range b.Excluded {
		a.Excluded[k] += v
	}
	for k, v := range b.Exhaustive {
		if v {
			a.Exhaustive[k] = true
		}
	}
	for _, s := range b.Samples {
		if len(a.Samples) < maxSamples {
			a.Samples = append(a.Samples, s)
		}
	}
	for _, s := range b.NTSamples {
		if len(a.NTSamples) < maxSamples {
			a.NTSamples = append(a.NTSamples, s)
		}
	}
	a.Probes = append(a.Probes, b.Probes...)
	for _, n := range b.Notes {
		if len(a.Notes) < 50 {
			a.Notes = append(a.Notes, n)
		}
	}
}
