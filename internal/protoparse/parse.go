// Package protoparse is a small proto3 parser for the subset of the language
// goa emits (and a bit more: nested messages, enums are rejected). It exists
// because protoc is not available in the sandbox: the verifier needs (a) an
// independent reading of the generated .proto text and (b) descriptors to
// feed the real protoc-gen-go.
package protoparse

import (
	"fmt"
	"strconv"
	"strings"
	"unicode"
)

// File is a parsed .proto file.
type File struct {
	Syntax    string
	Package   string
	GoPackage string
	Imports   []string
	Services  []*Service
	Messages  []*Message
}

// Service is a service definition.
type Service struct {
	Name string
	RPCs []*RPC
}

// RPC is one rpc line.
type RPC struct {
	Name      string
	In, Out   string
	InStream  bool
	OutStream bool
}

// Message is a message definition.
type Message struct {
	Name   string
	Fields []*Field
	Nested []*Message
	// Oneofs lists the oneof names in declaration order.
	Oneofs []string
}

// Field is a message field.
type Field struct {
	Label   string // "", "optional", "repeated"
	Type    string // scalar or message type name; "map" for maps
	KeyType string // maps
	ValType string // maps
	Name    string
	Number  int
	Oneof   string // name of the enclosing oneof, "" if none
	Line    int
}

type tok struct {
	s    string
	line int
	str  bool
}

func lex(src string) ([]tok, error) {
	var out []tok
	line := 1
	i := 0
	for i < len(src) {
		c := src[i]
		switch {
		case c == '\n':
			line++
			i++
		case c == ' ' || c == '\t' || c == '\r':
			i++
		case c == '/' && i+1 < len(src) && src[i+1] == '/':
			for i < len(src) && src[i] != '\n' {
				i++
			}
		case c == '/' && i+1 < len(src) && src[i+1] == '*':
			j := strings.Index(src[i+2:], "*/")
			if j < 0 {
				return nil, fmt.Errorf("line %d: unterminated comment", line)
			}
			line += strings.Count(src[i:i+2+j+2], "\n")
			i += 2 + j + 2
		case c == '"' || c == '\'':
			j := i + 1
			var b strings.Builder
			for j < len(src) && src[j] != c {
				if src[j] == '\\' && j+1 < len(src) {
					b.WriteByte(src[j+1])
					j += 2
					continue
				}
				if src[j] == '\n' {
					return nil, fmt.Errorf("line %d: newline in string", line)
				}
				b.WriteByte(src[j])
				j++
			}
			if j >= len(src) {
				return nil, fmt.Errorf("line %d: unterminated string", line)
			}
			out = append(out, tok{b.String(), line, true})
			i = j + 1
		case strings.ContainsRune("{}()<>=;,[]", rune(c)):
			out = append(out, tok{string(c), line, false})
			i++
		case c == '_' || c == '.' || c == '-' || unicode.IsLetter(rune(c)) || unicode.IsDigit(rune(c)):
			j := i
			for j < len(src) && (src[j] == '_' || src[j] == '.' || src[j] == '-' || src[j] >= 0x80 || unicode.IsLetter(rune(src[j])) || unicode.IsDigit(rune(src[j]))) {
				j++
			}
			out = append(out, tok{src[i:j], line, false})
			i = j
		default:
			return nil, fmt.Errorf("line %d: unexpected character %q", line, c)
		}
	}
	return out, nil
}

type parser struct {
	toks []tok
	pos  int
}

func (p *parser) peek() tok {
	if p.pos < len(p.toks) {
		return p.toks[p.pos]
	}
	return tok{s: "<eof>", line: -1}
}

func (p *parser) next() tok { t := p.peek(); p.pos++; return t }

func (p *parser) expect(s string) error {
	t := p.next()
	if t.s != s || t.str {
		return fmt.Errorf("line %d: expected %q, found %q", t.line, s, t.s)
	}
	return nil
}

var identOK = func(s string) bool {
	if s == "" || !(s[0] == '_' || unicode.IsLetter(rune(s[0]))) || s[0] >= 0x80 {
		return false
	}
	for _, r := range s {
		if !(r == '_' || (r < 0x80 && (unicode.IsLetter(r) || unicode.IsDigit(r)))) {
			return false
		}
	}
	return true
}

func (p *parser) ident() (string, int, error) {
	t := p.next()
	if t.str || !identOK(t.s) {
		return "", t.line, fmt.Errorf("line %d: %q is not a valid identifier", t.line, t.s)
	}
	return t.s, t.line, nil
}

// typeName accepts dotted names.
func (p *parser) typeName() (string, error) {
	t := p.next()
	if t.str {
		return "", fmt.Errorf("line %d: expected a type, found string", t.line)
	}
	for _, part := range strings.Split(strings.TrimPrefix(t.s, "."), ".") {
		if !identOK(part) {
			return "", fmt.Errorf("line %d: %q is not a valid type name", t.line, t.s)
		}
	}
	return t.s, nil
}

// Parse parses proto3 source.
func Parse(src string) (*File, error) {
	toks, err := lex(src)
	if err != nil {
		return nil, err
	}
	p := &parser{toks: toks}
	f := &File{}
	for p.pos < len(p.toks) {
		t := p.next()
		switch t.s {
		case "syntax":
			if err := p.expect("="); err != nil {
				return nil, err
			}
			v := p.next()
			if !v.str {
				return nil, fmt.Errorf("line %d: syntax wants a string", v.line)
			}
			f.Syntax = v.s
			if err := p.expect(";"); err != nil {
				return nil, err
			}
		case "package":
			v := p.next()
			f.Package = v.s
			for _, part := range strings.Split(v.s, ".") {
				if !identOK(part) {
					return nil, fmt.Errorf("line %d: invalid package name %q", v.line, v.s)
				}
			}
			if err := p.expect(";"); err != nil {
				return nil, err
			}
		case "import":
			v := p.next()
			if v.s == "public" || v.s == "weak" {
				v = p.next()
			}
			if !v.str {
				return nil, fmt.Errorf("line %d: import wants a string", v.line)
			}
			f.Imports = append(f.Imports, v.s)
			if err := p.expect(";"); err != nil {
				return nil, err
			}
		case "option":
			name := p.next()
			if err := p.expect("="); err != nil {
				return nil, err
			}
			v := p.next()
			if name.s == "go_package" {
				f.GoPackage = v.s
			}
			if err := p.expect(";"); err != nil {
				return nil, err
			}
		case "service":
			s, err := p.service()
			if err != nil {
				return nil, err
			}
			f.Services = append(f.Services, s)
		case "message":
			m, err := p.message()
			if err != nil {
				return nil, err
			}
			f.Messages = append(f.Messages, m)
		case ";":
		default:
			return nil, fmt.Errorf("line %d: unexpected %q at top level", t.line, t.s)
		}
	}
	if f.Syntax != "proto3" {
		return nil, fmt.Errorf("syntax is %q, want proto3", f.Syntax)
	}
	return f, nil
}

func (p *parser) service() (*Service, error) {
	name, _, err := p.ident()
	if err != nil {
		return nil, err
	}
	s := &Service{Name: name}
	if err := p.expect("{"); err != nil {
		return nil, err
	}
	for {
		t := p.next()
		switch t.s {
		case "}":
			return s, nil
		case ";":
		case "rpc":
			r := &RPC{}
			if r.Name, _, err = p.ident(); err != nil {
				return nil, err
			}
			if err := p.expect("("); err != nil {
				return nil, err
			}
			if p.peek().s == "stream" {
				p.next()
				r.InStream = true
			}
			if r.In, err = p.typeName(); err != nil {
				return nil, err
			}
			if err := p.expect(")"); err != nil {
				return nil, err
			}
			if err := p.expect("returns"); err != nil {
				return nil, err
			}
			if err := p.expect("("); err != nil {
				return nil, err
			}
			if p.peek().s == "stream" {
				p.next()
				r.OutStream = true
			}
			if r.Out, err = p.typeName(); err != nil {
				return nil, err
			}
			if err := p.expect(")"); err != nil {
				return nil, err
			}
			if p.peek().s == "{" {
				p.next()
				if err := p.expect("}"); err != nil {
					return nil, err
				}
			} else if err := p.expect(";"); err != nil {
				return nil, err
			}
			s.RPCs = append(s.RPCs, r)
		default:
			return nil, fmt.Errorf("line %d: unexpected %q in service %s", t.line, t.s, name)
		}
	}
}

func (p *parser) message() (*Message, error) {
	name, _, err := p.ident()
	if err != nil {
		return nil, err
	}
	m := &Message{Name: name}
	if err := p.expect("{"); err != nil {
		return nil, err
	}
	for {
		t := p.peek()
		switch t.s {
		case "}":
			p.next()
			return m, nil
		case ";":
			p.next()
		case "message":
			p.next()
			n, err := p.message()
			if err != nil {
				return nil, err
			}
			m.Nested = append(m.Nested, n)
		case "enum", "extensions", "extend", "group", "reserved", "option":
			return nil, fmt.Errorf("line %d: %q is outside the supported subset", t.line, t.s)
		case "oneof":
			p.next()
			on, _, err := p.ident()
			if err != nil {
				return nil, err
			}
			m.Oneofs = append(m.Oneofs, on)
			if err := p.expect("{"); err != nil {
				return nil, err
			}
			n := 0
			for p.peek().s != "}" {
				f, err := p.field(true)
				if err != nil {
					return nil, err
				}
				f.Oneof = on
				m.Fields = append(m.Fields, f)
				n++
			}
			p.next()
			if n == 0 {
				return nil, fmt.Errorf("line %d: oneof %s has no field", t.line, on)
			}
		default:
			f, err := p.field(false)
			if err != nil {
				return nil, err
			}
			m.Fields = append(m.Fields, f)
		}
	}
}

func (p *parser) field(inOneof bool) (*Field, error) {
	f := &Field{Line: p.peek().line}
	t := p.peek()
	if t.s == "optional" || t.s == "repeated" || t.s == "required" {
		if inOneof {
			return nil, fmt.Errorf("line %d: label %s inside oneof", t.line, t.s)
		}
		if t.s == "required" {
			return nil, fmt.Errorf("line %d: required is not proto3", t.line)
		}
		f.Label = t.s
		p.next()
	}
	if p.peek().s == "map" {
		p.next()
		if f.Label != "" || inOneof {
			return nil, fmt.Errorf("line %d: map fields cannot have a label or be in a oneof", f.Line)
		}
		f.Type = "map"
		if err := p.expect("<"); err != nil {
			return nil, err
		}
		var err error
		if f.KeyType, err = p.typeName(); err != nil {
			return nil, err
		}
		if err := p.expect(","); err != nil {
			return nil, err
		}
		if f.ValType, err = p.typeName(); err != nil {
			return nil, err
		}
		if err := p.expect(">"); err != nil {
			return nil, err
		}
	} else {
		var err error
		if f.Type, err = p.typeName(); err != nil {
			return nil, err
		}
	}
	var err error
	if f.Name, _, err = p.ident(); err != nil {
		return nil, err
	}
	if err := p.expect("="); err != nil {
		return nil, err
	}
	nt := p.next()
	n, err := strconv.Atoi(nt.s)
	if err != nil || nt.str {
		return nil, fmt.Errorf("line %d: field number %q is not an integer", nt.line, nt.s)
	}
	f.Number = n
	if p.peek().s == "[" { // field options: skipped
		for p.peek().s != "]" && p.pos < len(p.toks) {
			p.next()
		}
		p.next()
	}
	if err := p.expect(";"); err != nil {
		return nil, err
	}
	return f, nil
}

// Scalars are the proto3 scalar type names.
var Scalars = map[string]bool{"double": true, "float": true, "int32": true, "int64": true, "uint32": true, "uint64": true, "sint32": true, "sint64": true,
	"fixed32": true, "fixed64": true, "sfixed32": true, "sfixed64": true, "bool": true, "string": true, "bytes": true}

// MapKeys are the scalar types allowed as map keys.
var MapKeys = map[string]bool{"int32": true, "int64": true, "uint32": true, "uint64": true, "sint32": true, "sint64": true,
	"fixed32": true, "fixed64": true, "sfixed32": true, "sfixed64": true, "bool": true, "string": true}

// Check applies the well-formedness rules of proto3 that concern the subset:
// unique message names, unique field names and numbers per message (oneof
// members share the message's number and name space), numbers in range,
// resolvable types, legal map key types, unique rpc names.
func (f *File) Check() []string {
	var errs []string
	known := map[string]bool{}
	var collect func(prefix string, ms []*Message)
	collect = func(prefix string, ms []*Message) {
		for _, m := range ms {
			full := prefix + m.Name
			if known[full] {
				errs = append(errs, fmt.Sprintf("message %s is defined twice", full))
			}
			known[full] = true
			collect(full+".", m.Nested)
		}
	}
	collect("", f.Messages)
	resolve := func(scope, t string) bool {
		if Scalars[t] {
			return true
		}
		t = strings.TrimPrefix(t, ".")
		if f.Package != "" {
			t = strings.TrimPrefix(t, f.Package+".")
		}
		if strings.HasPrefix(t, "google.protobuf.") {
			for _, imp := range f.Imports {
				if strings.HasPrefix(imp, "google/protobuf/") {
					return true
				}
			}
			return false
		}
		for s := scope; ; {
			if known[s+t] {
				return true
			}
			if s == "" {
				return false
			}
			s = strings.TrimSuffix(s, ".")
			if i := strings.LastIndex(s, "."); i >= 0 {
				s = s[:i+1]
			} else {
				s = ""
			}
		}
	}
	var checkMsg func(prefix string, m *Message)
	checkMsg = func(prefix string, m *Message) {
		full := prefix + m.Name
		names, nums := map[string]bool{}, map[int]bool{}
		for _, o := range m.Oneofs {
			if names[o] {
				errs = append(errs, fmt.Sprintf("message %s: name %q is used twice", full, o))
			}
			names[o] = true
		}
		for _, fd := range m.Fields {
			if names[fd.Name] {
				errs = append(errs, fmt.Sprintf("message %s: field name %q is used twice", full, fd.Name))
			}
			names[fd.Name] = true
			if nums[fd.Number] {
				errs = append(errs, fmt.Sprintf("message %s: field number %d is used twice (field %s)", full, fd.Number, fd.Name))
			}
			nums[fd.Number] = true
			if fd.Number < 1 || fd.Number > 536870911 || (fd.Number >= 19000 && fd.Number <= 19999) {
				errs = append(errs, fmt.Sprintf("message %s: field %s has the illegal number %d", full, fd.Name, fd.Number))
			}
			if fd.Type == "map" {
				if !MapKeys[fd.KeyType] {
					errs = append(errs, fmt.Sprintf("message %s: map field %s has the illegal key type %s", full, fd.Name, fd.KeyType))
				}
				if !resolve(full+".", fd.ValType) {
					errs = append(errs, fmt.Sprintf("message %s: map field %s: unknown value type %s", full, fd.Name, fd.ValType))
				}
			} else if !resolve(full+".", fd.Type) {
				errs = append(errs, fmt.Sprintf("message %s: field %s: unknown type %s", full, fd.Name, fd.Type))
			}
		}
		for _, n := range m.Nested {
			checkMsg(full+".", n)
		}
	}
	for _, m := range f.Messages {
		checkMsg("", m)
	}
	svc := map[string]bool{}
	for _, s := range f.Services {
		if svc[s.Name] || known[s.Name] {
			errs = append(errs, fmt.Sprintf("service name %s clashes with another definition", s.Name))
		}
		svc[s.Name] = true
		rpcs := map[string]bool{}
		for _, r := range s.RPCs {
			if rpcs[r.Name] {
				errs = append(errs, fmt.Sprintf("service %s: rpc %s is declared twice", s.Name, r.Name))
			}
			rpcs[r.Name] = true
			for _, t := range []string{r.In, r.Out} {
				if Scalars[t] || !resolve("", t) {
					errs = append(errs, fmt.Sprintf("service %s: rpc %s: %s is not a known message type", s.Name, r.Name, t))
				}
			}
		}
	}
	return errs
}

// Message looks up a top-level message.
func (f *File) Message(name string) *Message {
	for _, m := range f.Messages {
		if m.Name == name {
			return m
		}
	}
	return nil
}
