package protoparse

import (
	"fmt"
	"strings"

	"google.golang.org/protobuf/proto"
	"google.golang.org/protobuf/reflect/protodesc"
	"google.golang.org/protobuf/reflect/protoreflect"
	"google.golang.org/protobuf/types/descriptorpb"
)

var scalarTypes = map[string]descriptorpb.FieldDescriptorProto_Type{
	"double": descriptorpb.FieldDescriptorProto_TYPE_DOUBLE, "float": descriptorpb.FieldDescriptorProto_TYPE_FLOAT,
	"int32": descriptorpb.FieldDescriptorProto_TYPE_INT32, "int64": descriptorpb.FieldDescriptorProto_TYPE_INT64,
	"uint32": descriptorpb.FieldDescriptorProto_TYPE_UINT32, "uint64": descriptorpb.FieldDescriptorProto_TYPE_UINT64,
	"sint32": descriptorpb.FieldDescriptorProto_TYPE_SINT32, "sint64": descriptorpb.FieldDescriptorProto_TYPE_SINT64,
	"fixed32": descriptorpb.FieldDescriptorProto_TYPE_FIXED32, "fixed64": descriptorpb.FieldDescriptorProto_TYPE_FIXED64,
	"sfixed32": descriptorpb.FieldDescriptorProto_TYPE_SFIXED32, "sfixed64": descriptorpb.FieldDescriptorProto_TYPE_SFIXED64,
	"bool": descriptorpb.FieldDescriptorProto_TYPE_BOOL, "string": descriptorpb.FieldDescriptorProto_TYPE_STRING, "bytes": descriptorpb.FieldDescriptorProto_TYPE_BYTES,
}

func camel(s string) string {
	// protoc's ToCamelCase for map entry names
	var b strings.Builder
	up := true
	for _, r := range s {
		if r == '_' {
			up = true
			continue
		}
		if up && r >= 'a' && r <= 'z' {
			r -= 'a' - 'A'
		}
		up = false
		b.WriteRune(r)
	}
	return b.String()
}

// Descriptor converts the parsed file to a FileDescriptorProto the way protoc
// would (map entries, proto3 optional as synthetic oneofs).
func (f *File) Descriptor(name string) (*descriptorpb.FileDescriptorProto, error) {
	fd := &descriptorpb.FileDescriptorProto{
		Name:    proto.String(name),
		Package: proto.String(f.Package),
		Syntax:  proto.String("proto3"),
	}
	if f.GoPackage != "" {
		fd.Options = &descriptorpb.FileOptions{GoPackage: proto.String(f.GoPackage)}
	}
	fd.Dependency = append(fd.Dependency, f.Imports...)
	known := map[string]bool{}
	var collect func(prefix string, ms []*Message)
	collect = func(prefix string, ms []*Message) {
		for _, m := range ms {
			known[prefix+m.Name] = true
			collect(prefix+m.Name+".", m.Nested)
		}
	}
	collect("", f.Messages)
	qualify := func(scope, t string) (string, error) {
		if strings.HasPrefix(t, ".") {
			return t, nil
		}
		if strings.HasPrefix(t, "google.protobuf.") {
			return "." + t, nil
		}
		t2 := t
		if f.Package != "" {
			t2 = strings.TrimPrefix(t, f.Package+".")
		}
		for s := scope; ; {
			if known[s+t2] {
				if f.Package != "" {
					return "." + f.Package + "." + s + t2, nil
				}
				return "." + s + t2, nil
			}
			if s == "" {
				return "", fmt.Errorf("unknown type %s", t)
			}
			s = strings.TrimSuffix(s, ".")
			if i := strings.LastIndex(s, "."); i >= 0 {
				s = s[:i+1]
			} else {
				s = ""
			}
		}
	}
	setType := func(fp *descriptorpb.FieldDescriptorProto, scope, t string) error {
		if st, ok := scalarTypes[t]; ok {
			fp.Type = st.Enum()
			return nil
		}
		q, err := qualify(scope, t)
		if err != nil {
			return err
		}
		fp.Type = descriptorpb.FieldDescriptorProto_TYPE_MESSAGE.Enum()
		fp.TypeName = proto.String(q)
		return nil
	}
	var conv func(prefix string, m *Message) (*descriptorpb.DescriptorProto, error)
	conv = func(prefix string, m *Message) (*descriptorpb.DescriptorProto, error) {
		dp := &descriptorpb.DescriptorProto{Name: proto.String(m.Name)}
		scope := prefix + m.Name + "."
		oneofIdx := map[string]int32{}
		for _, o := range m.Oneofs {
			oneofIdx[o] = int32(len(dp.OneofDecl))
			dp.OneofDecl = append(dp.OneofDecl, &descriptorpb.OneofDescriptorProto{Name: proto.String(o)})
		}
		var synthetic []*descriptorpb.FieldDescriptorProto
		for _, fld := range m.Fields {
			fp := &descriptorpb.FieldDescriptorProto{Name: proto.String(fld.Name), Number: proto.Int32(int32(fld.Number)), Label: descriptorpb.FieldDescriptorProto_LABEL_OPTIONAL.Enum()}
			switch {
			case fld.Type == "map":
				entry := camel(fld.Name) + "Entry"
				ep := &descriptorpb.DescriptorProto{Name: proto.String(entry), Options: &descriptorpb.MessageOptions{MapEntry: proto.Bool(true)}}
				kp := &descriptorpb.FieldDescriptorProto{Name: proto.String("key"), Number: proto.Int32(1), Label: descriptorpb.FieldDescriptorProto_LABEL_OPTIONAL.Enum(), JsonName: proto.String("key")}
				if err := setType(kp, scope, fld.KeyType); err != nil {
					return nil, fmt.Errorf("message %s field %s: %w", m.Name, fld.Name, err)
				}
				vp := &descriptorpb.FieldDescriptorProto{Name: proto.String("value"), Number: proto.Int32(2), Label: descriptorpb.FieldDescriptorProto_LABEL_OPTIONAL.Enum(), JsonName: proto.String("value")}
				if err := setType(vp, scope, fld.ValType); err != nil {
					return nil, fmt.Errorf("message %s field %s: %w", m.Name, fld.Name, err)
				}
				ep.Field = []*descriptorpb.FieldDescriptorProto{kp, vp}
				dp.NestedType = append(dp.NestedType, ep)
				fp.Label = descriptorpb.FieldDescriptorProto_LABEL_REPEATED.Enum()
				fp.Type = descriptorpb.FieldDescriptorProto_TYPE_MESSAGE.Enum()
				q := "." + scope + entry
				if f.Package != "" {
					q = "." + f.Package + "." + scope + entry
				}
				fp.TypeName = proto.String(q)
			default:
				if err := setType(fp, scope, fld.Type); err != nil {
					return nil, fmt.Errorf("message %s field %s: %w", m.Name, fld.Name, err)
				}
				if fld.Label == "repeated" {
					fp.Label = descriptorpb.FieldDescriptorProto_LABEL_REPEATED.Enum()
				}
			}
			if fld.Oneof != "" {
				fp.OneofIndex = proto.Int32(oneofIdx[fld.Oneof])
			} else if fld.Label == "optional" {
				fp.Proto3Optional = proto.Bool(true)
				synthetic = append(synthetic, fp)
			}
			dp.Field = append(dp.Field, fp)
		}
		for _, fp := range synthetic {
			fp.OneofIndex = proto.Int32(int32(len(dp.OneofDecl)))
			dp.OneofDecl = append(dp.OneofDecl, &descriptorpb.OneofDescriptorProto{Name: proto.String("_" + fp.GetName())})
		}
		for _, n := range m.Nested {
			np, err := conv(scope, n)
			if err != nil {
				return nil, err
			}
			dp.NestedType = append(dp.NestedType, np)
		}
		return dp, nil
	}
	for _, m := range f.Messages {
		dp, err := conv("", m)
		if err != nil {
			return nil, err
		}
		fd.MessageType = append(fd.MessageType, dp)
	}
	for _, s := range f.Services {
		sp := &descriptorpb.ServiceDescriptorProto{Name: proto.String(s.Name)}
		for _, r := range s.RPCs {
			in, err := qualify("", r.In)
			if err != nil {
				return nil, fmt.Errorf("rpc %s: %w", r.Name, err)
			}
			out, err := qualify("", r.Out)
			if err != nil {
				return nil, fmt.Errorf("rpc %s: %w", r.Name, err)
			}
			mp := &descriptorpb.MethodDescriptorProto{Name: proto.String(r.Name), InputType: proto.String(in), OutputType: proto.String(out)}
			if r.InStream {
				mp.ClientStreaming = proto.Bool(true)
			}
			if r.OutStream {
				mp.ServerStreaming = proto.Bool(true)
			}
			sp.Method = append(sp.Method, mp)
		}
		fd.Service = append(fd.Service, sp)
	}
	return fd, nil
}

// Validate builds the descriptor with the protobuf runtime's own checker
// (protodesc.NewFile): an independent judgement of well-formedness.
func Validate(fd *descriptorpb.FileDescriptorProto) (protoreflect.FileDescriptor, error) {
	return protodesc.NewFile(fd, nil)
}
