package streamcase

import (
	"fmt"
	"strings"
	"sync"
	"sync/atomic"
	"testing"

	"pgregory.net/rapid"

	"verif/harness"
	"verif/internal/gen"
	m "verif/internal/model"
	"verif/internal/rt"
	"verif/internal/stats"
)

// inconclusive: some method failed only because a stream operation timed out
var inconclusive atomic.Bool

// Judge compares the observation of one scripted call with the design.
type Judge func(d *m.Design, s *m.Service, meth *m.Method, c *Case, obs *harness.Obs) string

// replayRec is what a replay of a failing streaming case needs.
type replayRec struct {
	Service string `json:"service"`
	Method  string `json:"method"`
	Case    *Case  `json:"case"`
	Message string `json:"message"`
}

// RunDesigns generates designs of the streams profile, builds and mounts
// them and runs scripted calls of every streaming method, judged by judge.
// prop is the property id for messages; nontrivial says which cases count.
func RunDesigns(t *testing.T, prop, tag string, judge Judge, nontrivial func(meth *m.Method, c *Case) bool) {
	n := rt.EnvInt("VERIF_CHECKS", 6)
	seed := rt.EnvInt("VERIF_SEED", 1)
	keep := func(d *m.Design) bool {
		for _, s := range d.Services {
			for _, meth := range s.Methods {
				if meth.Streaming != "" {
					return true
				}
			}
		}
		return false
	}
	sess, built := rt.Prepare(t, tag, rt.Options{Profile: gen.Streams(), N: n, Seed: seed, Keep: keep})
	defer sess.Close()
	defer rt.CloseAll(built)
	if len(built) == 0 {
		t.Fatalf("INCONCLUSIVE: no design could be built")
	}
	if len(built)*2 < n && rt.ReplayDir() == "" {
		t.Fatalf("INCONCLUSIVE: only %d of %d designs could be built (generator health)", len(built), n)
	}
	var wg sync.WaitGroup
	var mu sync.Mutex
	failures := 0
	sem := make(chan struct{}, 16)
	for _, b := range built {
		wg.Add(1)
		go func(b *rt.Built) {
			defer wg.Done()
			sem <- struct{}{}
			defer func() { <-sem }()
			for _, s := range b.Design.Services {
				for _, meth := range s.Methods {
					if meth.Streaming == "" || meth.HTTP == nil {
						continue
					}
					if !checkMethod(t, prop, b, s, meth, judge, nontrivial) {
						mu.Lock()
						failures++
						mu.Unlock()
					}
				}
			}
		}(b)
	}
	wg.Wait()
	if failures > 0 {
		if inconclusive.Load() {
			t.Fatalf("INCONCLUSIVE: %d streaming method(s) could not be judged (a stream operation timed out)", failures)
		}
		t.Fatalf("%d streaming method(s) violate %s", failures, prop)
	}
}

func checkMethod(t *testing.T, prop string, b *rt.Built, s *m.Service, meth *m.Method, judge Judge, nontrivial func(*m.Method, *Case) bool) bool {
	d := b.Design
	label := rt.MethodLabel(b, s, meth)
	run := func(c *Case) string {
		obs, err := b.H.Do(c.Harness())
		if err != nil {
			return "INCONCLUSIVE: harness: " + err.Error()
		}
		return judge(d, s, meth, c, obs)
	}
	var replay replayRec
	if rt.LoadReplayCase(&replay) {
		if replay.Service != s.Name || replay.Method != meth.Name || replay.Case == nil {
			return true
		}
		if msg := run(replay.Case); msg != "" {
			t.Errorf("replayed case still fails: %s", msg)
			return false
		}
		fmt.Printf("replayed case passes: %s %s\n", s.Name, meth.Name)
		return true
	}
	var last *replayRec
	ok := t.Run(label, func(t *testing.T) {
		rapid.Check(t, func(rt_ *rapid.T) {
			c := Gen(d, s, meth, "", 8).Draw(rt_, "case")
			msg := run(c)
			stats.CaseSample(b.Run.Name+"|"+c.Key(), nontrivial(meth, c), c.Describe())
			stats.Class("stream:" + meth.Streaming)
			if strings.Contains(c.Spec.Script, "cs") && strings.Contains(c.Spec.Script, "sc") {
				stats.Class("stream:interleaved")
			}
			if c.Spec.View != "" {
				stats.Class("stream:view-chosen-by-service")
			}
			if strings.HasPrefix(msg, "SKIP") {
				stats.Class("skipped:other-direction-failed-first")
				msg = ""
			}
			if msg != "" {
				if strings.HasPrefix(msg, "INCONCLUSIVE") {
					inconclusive.Store(true)
					rt_.Fatalf("%s", msg)
				}
				last = &replayRec{Service: s.Name, Method: meth.Name, Case: c, Message: msg}
				rt_.Fatalf("%s (%s, script %q): %s", label, meth.Streaming, c.Spec.Script, msg)
			}
		})
	})
	if !ok && last != nil {
		dir := rt.SaveReplay(b, label, last)
		fmt.Printf("%s failing case saved: %s\n  design: %s\n  %s\n", prop, dir, b.Run.Name, last.Message)
	}
	return ok
}
