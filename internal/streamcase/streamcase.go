// Package streamcase generates scripted calls of streaming methods and judges
// what both ends of the stream observed. C02 judges the client-to-server
// direction (initial payload, streamed payload messages), C03 and C10 the
// server-to-client direction (streamed results, final result, views).
package streamcase

import (
	"fmt"
	"strings"

	"pgregory.net/rapid"

	"verif/harness"
	"verif/internal/gen"
	"verif/internal/kf"
	m "verif/internal/model"
	"verif/internal/oracle"
	"verif/internal/stats"
	"verif/internal/value"
)

// EmptyStreamFinding: over HTTP the connection is upgraded by the first Send
// or Recv of the service; a method that returns (or closes the stream) without
// either answers the upgrade request with a plain, empty 200 response and the
// generated client reports a decoding error instead of an empty stream.
const EmptyStreamFinding = "C03-empty-result-stream-never-upgraded"

// ViewLostFinding: over HTTP the view selected with SetView travels in the
// goa-view header of the upgrade response, which the generated server only
// adds when the upgrade happens inside Send. A bidirectional method that
// receives before it sends upgrades inside Recv: the client never learns the
// view, assumes "default" and validates (or projects) the results with it.
const ViewLostFinding = "C03-bidirectional-stream-view-lost-when-service-receives-first"

// Case is one scripted streaming call.
type Case struct {
	Svc, Method string
	Transport   string
	HasPayload  bool
	Payload     value.V
	Spec        harness.StreamSpec
	HasFinal    bool
	Final       value.V // result of a payload-streaming method (SendAndClose / CloseAndRecv)
	// FaultAt >= 0: client message FaultAt breaks exactly one constraint of the
	// streamed payload (Fault says which); the script ends with that message.
	FaultAt int
	Fault   gen.Fault
}

// Harness renders the case for the harness.
func (c *Case) Harness() *harness.Case {
	spec := c.Spec
	return &harness.Case{Op: "call", Svc: c.Svc, Method: c.Method, Transport: c.Transport, HasPayload: c.HasPayload, Payload: c.Payload, Stream: &spec,
		Stub: harness.StubSpec{HasResult: c.HasFinal, Result: c.Final, View: spec.View}}
}

// Describe is a one-line description for evidence samples.
func (c *Case) Describe() map[string]any {
	return map[string]any{"method": c.Method, "script": c.Spec.Script, "invalid_client_message": c.FaultAt, "fault": c.Fault.Desc, "client_closes": c.Spec.ClientCloses, "view": c.Spec.View,
		"payload": c.Payload.Canon(), "client_messages": len(c.Spec.Send), "server_messages": len(c.Spec.Results)}
}

// Key identifies the case for the distinct-case count.
func (c *Case) Key() string {
	var b strings.Builder
	fmt.Fprintf(&b, "%s|%s|%s|%v|%s|%s|%d", c.Transport, c.Method, c.Spec.Script, c.Spec.ClientCloses, c.Spec.View, c.Payload.Canon(), c.FaultAt)
	for _, v := range c.Spec.Send {
		b.WriteString("|c:" + v.Canon())
	}
	for _, v := range c.Spec.Results {
		b.WriteString("|s:" + v.Canon())
	}
	return b.String()
}

// Gen draws a case for a streaming method. maxOps bounds the script length.
func Gen(d *m.Design, s *m.Service, meth *m.Method, transport string, maxOps int) *rapid.Generator[*Case] {
	return GenFaulty(d, s, meth, transport, maxOps, false)
}

// GenFaulty is Gen; with faults set, about one case in three carries one
// invalid client message (single-fault mutant of a valid message) as its last
// scripted operation.
func GenFaulty(d *m.Design, s *m.Service, meth *m.Method, transport string, maxOps int, faults bool) *rapid.Generator[*Case] {
	valueGen := func(a *m.Attr) *rapid.Generator[value.V] {
		if transport == "grpc" {
			return gen.GRPCValueGen(d, a)
		}
		return gen.ValidValueAt(d, a, gen.LocFor("body"), 3)
	}
	return rapid.Custom(func(t *rapid.T) *Case {
		c := &Case{Svc: s.Name, Method: meth.Name, Transport: transport, FaultAt: -1}
		if meth.Payload != nil {
			c.HasPayload = true
			if transport == "grpc" {
				c.Payload = gen.GRPCPayloadGen(d, meth).Draw(t, "payload")
			} else {
				c.Payload = gen.PayloadGen(d, meth).Draw(t, "payload")
			}
		}
		n := rapid.IntRange(0, maxOps).Draw(t, "ops")
		if transport != "grpc" && meth.Streaming != "payload" && kf.Open(EmptyStreamFinding) {
			// a service that closes a websocket stream it never used: steered away from the open finding
			// (a bidirectional stream the client closes is read once by the service, which upgrades it)
			if n == 0 {
				n = 1
			}
		}
		var script []byte
		switch meth.Streaming {
		case "result":
			script = []byte(strings.Repeat("s", n))
		case "payload":
			script = []byte(strings.Repeat("c", n))
			// the client ends a payload stream (CloseAndRecv, or Close when the method has no result)
			c.Spec.ClientCloses = true
		default:
			for i := 0; i < n; i++ {
				if rapid.Bool().Draw(t, "dir") {
					script = append(script, 'c')
				} else {
					script = append(script, 's')
				}
			}
			c.Spec.ClientCloses = rapid.Bool().Draw(t, "clientCloses")
		}
		c.Spec.Script = string(script)
		for _, op := range script {
			if op == 'c' {
				c.Spec.Send = append(c.Spec.Send, valueGen(meth.StreamingPayload).Draw(t, "msg"))
			} else {
				c.Spec.Results = append(c.Spec.Results, valueGen(meth.Result).Draw(t, "res"))
			}
		}
		if meth.Streaming == "payload" && meth.Result != nil {
			c.HasFinal = true
			c.Final = valueGen(meth.Result).Draw(t, "final")
		}
		if faults && len(c.Spec.Send) > 0 && rapid.IntRange(0, 2).Draw(t, "faulty") == 0 {
			j := rapid.IntRange(0, len(c.Spec.Send)-1).Draw(t, "faultAt")
			if mut, f, ok := gen.Mutate(t, d, meth.StreamingPayload, c.Spec.Send[j], func(string) gen.Loc { return gen.Loc{Where: "body"} }); ok {
				// cut the script after the j-th client message
				seen := -1
				for k, op := range script {
					if op == 'c' {
						seen++
						if seen == j {
							script = script[:k+1]
							break
						}
					}
				}
				c.Spec.Script = string(script)
				c.Spec.Send = append(append([]value.V{}, c.Spec.Send[:j]...), mut)
				c.Spec.Results = c.Spec.Results[:strings.Count(c.Spec.Script, "s")]
				c.FaultAt, c.Fault = j, f
			}
		}
		if meth.Streaming != "payload" && meth.ResultView == "" {
			if vs := oracle.ResultViews(d, meth.Result); len(vs) > 0 {
				c.Spec.View = rapid.SampledFrom(vs).Draw(t, "view")
				if transport != "grpc" && len(script) > 0 && script[0] == 'c' && c.Spec.View != "default" && kf.Open(ViewLostFinding) {
					// steered away from the open finding
					stats.Excluded(ViewLostFinding)
					c.Spec.View = "default"
				}
			}
		}
		return c
	})
}

func firstLines(s string, n int) string {
	ls := strings.Split(s, "\n")
	if len(ls) > n {
		ls = ls[:n]
	}
	return strings.Join(ls, "\n")
}

func logOf(o *harness.StreamObs) string {
	if o == nil {
		return "(not run)"
	}
	return strings.Join(o.Log, " ")
}

func has(o *harness.StreamObs, entry string) bool {
	if o == nil {
		return false
	}
	for _, l := range o.Log {
		if l == entry {
			return true
		}
	}
	return false
}

func timedOut(o *harness.StreamObs) bool {
	if o == nil {
		return false
	}
	for _, l := range o.Log {
		if strings.Contains(l, "timeout") {
			return true
		}
	}
	return false
}

// Common checks what both directions need: the harness could run the case,
// nothing panicked, the method ran once and the stream was established.
// A message starting with "INCONCLUSIVE" is an infrastructure problem.
func Common(c *Case, obs *harness.Obs) string {
	if obs.Err != "" {
		return "INCONCLUSIVE: harness could not run the case: " + obs.Err
	}
	if obs.Panic != "" {
		return "panic in generated client code: " + firstLines(obs.Panic, 24)
	}
	if obs.ServerPanic != "" {
		return "panic in generated server code: " + firstLines(obs.ServerPanic, 24)
	}
	for _, o := range []*harness.StreamObs{obs.ServerStream, obs.ClientStream} {
		if o != nil {
			for _, l := range o.Log {
				if strings.Contains(l, ":panic:") {
					return "panic inside a generated stream method: " + l
				}
			}
		}
	}
	if obs.StubCalls != 1 {
		ce := ""
		if obs.ClientErr != nil {
			ce = obs.ClientErr.Text
		}
		return fmt.Sprintf("the service method ran %d times for a valid streaming call (client error %q)", obs.StubCalls, ce)
	}
	if obs.ClientStream == nil || !obs.ClientStream.Ran {
		ce := ""
		if obs.ClientErr != nil {
			ce = obs.ClientErr.Text
		}
		return fmt.Sprintf("the generated client returned no stream (error %q)", ce)
	}
	if obs.ServerStream == nil || !obs.ServerStream.Ran {
		return "the service method received no stream"
	}
	return ""
}

// lost decides what a missing message is: a violation when the sender's log
// shows the message went out, an infrastructure timeout otherwise.
func lost(dir string, i int, sender, receiver *harness.StreamObs) string {
	// the sender stopped before this message because a message of the OTHER
	// direction failed at its end: that failure is the other direction's
	// subject (C02 and C03 split the two directions), not a loss in this one
	if sender != nil && !has(sender, fmt.Sprintf("send:%d:ok", i)) {
		for _, l := range sender.Log {
			if strings.HasPrefix(l, "recv:") && (strings.Contains(l, ":err:") || strings.HasSuffix(l, ":eof")) {
				return "SKIP the " + dir + " direction stopped at message " + fmt.Sprint(i) + " because the other direction failed first: " + l
			}
		}
	}
	if receiver != nil {
		pre := fmt.Sprintf("recv:%d:err:", i)
		for _, l := range receiver.Log {
			if strings.HasPrefix(l, pre) {
				return fmt.Sprintf("%s message %d: the receiver's Recv failed on a valid message: %s\n  sender:   %s\n  receiver: %s", dir, i, strings.TrimPrefix(l, pre), logOf(sender), logOf(receiver))
			}
		}
	}
	if has(sender, fmt.Sprintf("send:%d:ok", i)) {
		return fmt.Sprintf("%s message %d was sent but never received\n  sender:   %s\n  receiver: %s", dir, i, logOf(sender), logOf(receiver))
	}
	if timedOut(sender) || timedOut(receiver) {
		return fmt.Sprintf("INCONCLUSIVE: %s message %d: a stream operation timed out\n  sender:   %s\n  receiver: %s", dir, i, logOf(sender), logOf(receiver))
	}
	return fmt.Sprintf("%s message %d was neither sent nor received: the stream stopped early\n  sender:   %s\n  receiver: %s", dir, i, logOf(sender), logOf(receiver))
}

// ClientToServer judges the initial payload and the messages streamed by the client.
func ClientToServer(d *m.Design, s *m.Service, meth *m.Method, c *Case, obs *harness.Obs) string {
	if msg := Common(c, obs); msg != "" {
		return msg
	}
	if meth.Payload != nil {
		want := oracle.Canonicalize(d, meth.Payload, c.Payload)
		got := oracle.Canonicalize(d, meth.Payload, obs.Received)
		if !obs.HadPayload {
			got = value.Nil()
		}
		if msg := oracle.Match(d, meth.Payload, want, got, false, ""); msg != "" {
			return fmt.Sprintf("initial payload seen by the method differs: %s\n  sent:     %s\n  received: %s", msg, c.Payload.Canon(), got.Canon())
		}
		if c.Transport != "grpc" && obs.ClientStream.Dial != nil {
			if msg := oracle.CheckRequestLocations(d, s, meth, c.Payload, *obs.ClientStream.Dial); msg != "" {
				return "location (upgrade request): " + msg + "\n  request: GET " + obs.ClientStream.Dial.URL
			}
		}
	}
	if meth.StreamingPayload == nil {
		return ""
	}
	srv, cli := obs.ServerStream, obs.ClientStream
	for i, sent := range c.Spec.Send {
		if i >= len(srv.Received) {
			return lost("client-to-server", i, cli, srv)
		}
		want := oracle.Canonicalize(d, meth.StreamingPayload, sent)
		got := oracle.Canonicalize(d, meth.StreamingPayload, srv.Received[i])
		if msg := oracle.Match(d, meth.StreamingPayload, want, got, false, ""); msg != "" {
			return fmt.Sprintf("streamed payload message %d of %d differs at the service: %s\n  sent:     %s\n  received: %s", i, len(c.Spec.Send), msg, sent.Canon(), got.Canon())
		}
	}
	if len(srv.Received) > len(c.Spec.Send) {
		return fmt.Sprintf("the service received %d streamed payload messages, the client sent %d; extra: %s", len(srv.Received), len(c.Spec.Send), srv.Received[len(c.Spec.Send)].Canon())
	}
	// the end of the client's messages must be visible to the service when the client ends the stream
	if meth.Streaming == "payload" || c.Spec.ClientCloses {
		if cli.Done && srv.End != "eof" {
			if timedOut(srv) && !has(cli, "close:ok") && !strings.HasPrefix(lastLog(cli), "closeandrecv") {
				return "INCONCLUSIVE: end of stream: " + logOf(srv)
			}
			return fmt.Sprintf("the client ended the stream after %d messages but the service's next Recv returned %q instead of io.EOF\n  client: %s\n  server: %s", len(c.Spec.Send), srv.End, logOf(cli), logOf(srv))
		}
	}
	return ""
}

func lastLog(o *harness.StreamObs) string {
	if o == nil || len(o.Log) == 0 {
		return ""
	}
	return o.Log[len(o.Log)-1]
}

// ServerToClient judges the results streamed by the service and the final result.
func ServerToClient(d *m.Design, s *m.Service, meth *m.Method, c *Case, obs *harness.Obs) string {
	if msg := Common(c, obs); msg != "" {
		return msg
	}
	srv, cli := obs.ServerStream, obs.ClientStream
	if c.Transport != "grpc" && cli.DialStatus != 101 {
		return fmt.Sprintf("the upgrade request of a valid streaming call was answered with status %d", cli.DialStatus)
	}
	if meth.Streaming == "payload" {
		if !cli.Done {
			if timedOut(cli) || timedOut(srv) {
				if has(srv, "sendandclose:ok") {
					return fmt.Sprintf("the service sent the final result but CloseAndRecv never returned it\n  client: %s\n  server: %s", logOf(cli), logOf(srv))
				}
				return "INCONCLUSIVE: final result: " + logOf(cli) + " / " + logOf(srv)
			}
			return fmt.Sprintf("the client stream stopped early\n  client: %s\n  server: %s", logOf(cli), logOf(srv))
		}
		if obs.ClientErr != nil {
			return fmt.Sprintf("CloseAndRecv returned an error for a valid result: %s\n  server: %s", obs.ClientErr.Text, logOf(srv))
		}
		if meth.Result != nil {
			want := oracle.Canonicalize(d, meth.Result, c.Final)
			expected := want
			if len(oracle.ResultViews(d, meth.Result)) > 0 {
				expected = oracle.Project(d, meth.Result, want, "default")
			}
			got := value.Nil()
			if obs.HasResult {
				got = oracle.Canonicalize(d, meth.Result, obs.Result)
			}
			if msg := oracle.Match(d, meth.Result, expected, got, false, ""); msg != "" {
				return fmt.Sprintf("final result seen by the client differs: %s\n  returned: %s\n  received: %s", msg, c.Final.Canon(), got.Canon())
			}
		}
		return ""
	}
	view := c.Spec.View
	if meth.ResultView != "" {
		view = meth.ResultView
	}
	viewed := len(oracle.ResultViews(d, meth.Result)) > 0
	for i, sent := range c.Spec.Results {
		if i >= len(cli.Received) {
			return lost("server-to-client", i, srv, cli)
		}
		want := oracle.Canonicalize(d, meth.Result, sent)
		expected := want
		got := oracle.Canonicalize(d, meth.Result, cli.Received[i])
		if viewed {
			v := view
			if v == "" {
				v = "default"
			}
			expected = oracle.Project(d, meth.Result, want, v)
			got = oracle.MaskOutsideView(d, meth.Result, got, v)
		}
		if msg := oracle.Match(d, meth.Result, expected, got, false, ""); msg != "" {
			return fmt.Sprintf("streamed result %d of %d differs at the client (view %q): %s\n  sent:     %s\n  expected: %s\n  received: %s", i, len(c.Spec.Results), view, msg, sent.Canon(), expected.Canon(), got.Canon())
		}
	}
	if len(cli.Received) > len(c.Spec.Results) {
		return fmt.Sprintf("the client received %d streamed results, the service sent %d; extra: %s", len(cli.Received), len(c.Spec.Results), cli.Received[len(c.Spec.Results)].Canon())
	}
	// when the service ends the stream the client's next Recv must report the end
	if meth.Streaming == "result" || !c.Spec.ClientCloses {
		if srv.Done && cli.End != "eof" {
			if cli.End == "timeout" && !has(srv, "close:ok") {
				return "INCONCLUSIVE: end of stream: " + logOf(cli) + " / " + logOf(srv)
			}
			return fmt.Sprintf("the service closed the stream after %d results but the client's next Recv returned %q instead of io.EOF\n  client: %s\n  server: %s", len(c.Spec.Results), cli.End, logOf(cli), logOf(srv))
		}
	}
	return ""
}

// Rejected judges a case with one invalid client message: the messages before
// it arrive as sent, the invalid one is refused by the generated server code
// (Recv returns an error) and is never handed to the service.
// skipped is true when the mutant cannot be expressed through the Go API.
func Rejected(d *m.Design, meth *m.Method, c *Case, obs *harness.Obs) (msg string, skipped bool) {
	if obs.Err != "" {
		return "INCONCLUSIVE: harness could not run the case: " + obs.Err, false
	}
	if obs.Panic != "" {
		return "panic in generated client code: " + firstLines(obs.Panic, 24), false
	}
	if obs.ServerPanic != "" {
		return "panic in generated server code: " + firstLines(obs.ServerPanic, 24), false
	}
	srv, cli := obs.ServerStream, obs.ClientStream
	j := c.FaultAt
	if cli != nil {
		for _, l := range cli.Log {
			if strings.HasPrefix(l, fmt.Sprintf("send:%d:err:harness conversion", j)) {
				return "", true
			}
			if strings.HasPrefix(l, fmt.Sprintf("send:%d:err:", j)) {
				// refused by the generated client before it left: never reaches the service either
				if srv != nil && len(srv.Received) > j {
					return fmt.Sprintf("the client refused invalid message %d (%s) yet the service received %d messages", j, l, len(srv.Received)), false
				}
				return "", false
			}
		}
	}
	if srv == nil || !srv.Ran || cli == nil || !cli.Ran {
		return Common(c, obs), false
	}
	for i := 0; i < j; i++ {
		if i >= len(srv.Received) {
			return lost("client-to-server", i, cli, srv), false
		}
		want := oracle.Canonicalize(d, meth.StreamingPayload, c.Spec.Send[i])
		got := oracle.Canonicalize(d, meth.StreamingPayload, srv.Received[i])
		if m := oracle.Match(d, meth.StreamingPayload, want, got, false, ""); m != "" {
			return fmt.Sprintf("valid message %d before the invalid one differs at the service: %s", i, m), false
		}
	}
	if len(srv.Received) > j {
		return fmt.Sprintf("message %d violates the design (%s) and was handed to the service as %s\n  sent: %s\n  server: %s", j, c.Fault.Desc, srv.Received[j].Canon(), c.Spec.Send[j].Canon(), logOf(srv)), false
	}
	pre := fmt.Sprintf("recv:%d:", j)
	for _, l := range srv.Log {
		if strings.HasPrefix(l, pre) {
			switch {
			case strings.HasPrefix(l, pre+"err:"):
				return "", false
			case l == pre+"timeout":
				if has(cli, fmt.Sprintf("send:%d:ok", j)) {
					return fmt.Sprintf("invalid message %d was sent but the service's Recv neither returned it nor failed\n  client: %s\n  server: %s", j, logOf(cli), logOf(srv)), false
				}
				return "INCONCLUSIVE: " + logOf(cli) + " / " + logOf(srv), false
			case l == pre+"eof":
				return fmt.Sprintf("invalid message %d (%s) was turned into the end of the stream (io.EOF) instead of an error\n  sent: %s", j, c.Fault.Desc, c.Spec.Send[j].Canon()), false
			}
		}
	}
	return fmt.Sprintf("the service never tried to receive message %d\n  client: %s\n  server: %s", j, logOf(cli), logOf(srv)), false
}

// Skipped reports whether a judge's message only says that its direction
// could not be judged because the other direction failed first.
func Skipped(msg string) bool { return strings.HasPrefix(msg, "SKIP") }
