// Package value defines the typed value trees exchanged between the driver
// (which knows the design model) and the runtime harness (which knows only
// the generated Go types).
package value

import (
	"bytes"
	"encoding/json"
	"fmt"
	"math"
	"sort"
	"strconv"
	"strings"
)

// V is a value. Unset optional attributes are represented by the absence of
// the field in O (objects) or by K == "nil".
type V struct {
	// K: "nil", "bool", "int", "uint", "float", "string", "bytes", "array",
	// "map", "object", "union"
	K string  `json:"k"`
	B bool    `json:"b,omitempty"`
	I int64   `json:"i,omitempty"`
	U uint64  `json:"u,omitempty"`
	F float64 `json:"f,omitempty"`
	S string  `json:"s,omitempty"` // string; bytes are stored raw in S as well (JSON escapes them)
	X []byte  `json:"x,omitempty"` // bytes
	A []V     `json:"a,omitempty"` // array elements; map: key0,val0,key1,val1…
	O []Field `json:"o,omitempty"` // object fields that are set, in declaration order
	// union: S = name of the alternative, A[0] = value
}

// Field is one set attribute of an object.
type Field struct {
	N string `json:"n"`
	V V      `json:"v"`
}

func Nil() V              { return V{K: "nil"} }
func Bool(b bool) V       { return V{K: "bool", B: b} }
func Int(i int64) V       { return V{K: "int", I: i} }
func Uint(u uint64) V     { return V{K: "uint", U: u} }
func Float(f float64) V   { return V{K: "float", F: f} }
func Str(s string) V      { return V{K: "string", S: s} }
func Bytes(b []byte) V    { return V{K: "bytes", X: b} }
func Array(a ...V) V      { return V{K: "array", A: a} }
func Object(f ...Field) V { return V{K: "object", O: f} }

// MapOf builds a map value from alternating keys and values.
func MapOf(kv ...V) V { return V{K: "map", A: kv} }

// IsNil reports whether the value is unset.
func (v V) IsNil() bool { return v.K == "nil" || v.K == "" }

// Get returns the named field of an object.
func (v V) Get(name string) (V, bool) {
	for _, f := range v.O {
		if f.N == name {
			return f.V, true
		}
	}
	return V{K: "nil"}, false
}

// Set returns a copy of the object with the field set (appended if new).
func (v V) Set(name string, x V) V {
	o := make([]Field, 0, len(v.O)+1)
	done := false
	for _, f := range v.O {
		if f.N == name {
			o = append(o, Field{name, x})
			done = true
		} else {
			o = append(o, f)
		}
	}
	if !done {
		o = append(o, Field{name, x})
	}
	return V{K: "object", O: o}
}

// Del returns a copy of the object without the field.
func (v V) Del(name string) V {
	o := make([]Field, 0, len(v.O))
	for _, f := range v.O {
		if f.N != name {
			o = append(o, f)
		}
	}
	return V{K: "object", O: o}
}

// Len returns the number of elements of an array or map, or runes of a string.
func (v V) Len() int {
	switch v.K {
	case "array":
		return len(v.A)
	case "map":
		return len(v.A) / 2
	case "string":
		return len([]rune(v.S))
	case "bytes":
		return len(v.X)
	}
	return 0
}

// Num returns the numeric value as float64 (ints exactly when |i| < 2^53).
func (v V) Num() (float64, bool) {
	switch v.K {
	case "int":
		return float64(v.I), true
	case "uint":
		return float64(v.U), true
	case "float":
		return v.F, true
	}
	return 0, false
}

// Canon returns a canonical text of the value: object fields sorted by name,
// map entries sorted by canonical key. Used for equality, hashing and reports.
func (v V) Canon() string {
	var b strings.Builder
	v.canon(&b)
	return b.String()
}

func (v V) canon(b *strings.Builder) {
	switch v.K {
	case "nil", "":
		b.WriteString("nil")
	case "bool":
		fmt.Fprintf(b, "%v", v.B)
	case "int":
		fmt.Fprintf(b, "%d", v.I)
	case "uint":
		fmt.Fprintf(b, "%du", v.U)
	case "float":
		if v.F == math.Trunc(v.F) && math.Abs(v.F) < 1e15 {
			fmt.Fprintf(b, "%.1f", v.F)
		} else {
			b.WriteString(strconv.FormatFloat(v.F, 'g', -1, 64))
		}
	case "string":
		b.WriteString(strconv.Quote(v.S))
	case "bytes":
		fmt.Fprintf(b, "x%x", v.X)
	case "array":
		b.WriteString("[")
		for i, e := range v.A {
			if i > 0 {
				b.WriteString(",")
			}
			e.canon(b)
		}
		b.WriteString("]")
	case "map":
		type kv struct{ k, v string }
		var es []kv
		for i := 0; i+1 < len(v.A); i += 2 {
			es = append(es, kv{v.A[i].Canon(), v.A[i+1].Canon()})
		}
		sort.Slice(es, func(i, j int) bool { return es[i].k < es[j].k })
		b.WriteString("map{")
		for i, e := range es {
			if i > 0 {
				b.WriteString(",")
			}
			b.WriteString(e.k + ":" + e.v)
		}
		b.WriteString("}")
	case "object":
		fs := append([]Field(nil), v.O...)
		sort.Slice(fs, func(i, j int) bool { return fs[i].N < fs[j].N })
		b.WriteString("{")
		first := true
		for _, f := range fs {
			if f.V.IsNil() {
				continue
			}
			if !first {
				b.WriteString(",")
			}
			first = false
			b.WriteString(f.N + ":")
			f.V.canon(b)
		}
		b.WriteString("}")
	case "union":
		b.WriteString("union(" + v.S + ":")
		if len(v.A) > 0 {
			v.A[0].canon(b)
		}
		b.WriteString(")")
	default:
		b.WriteString("?" + v.K)
	}
}

// Equal is deep equality on canonical forms (unset object fields are ignored).
func Equal(a, b V) bool { return a.Canon() == b.Canon() }

// JSON renders the value for reports.
func (v V) JSON() string {
	var buf bytes.Buffer
	enc := json.NewEncoder(&buf)
	enc.SetEscapeHTML(false)
	_ = enc.Encode(v)
	return strings.TrimSpace(buf.String())
}
