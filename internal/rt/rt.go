// Package rt prepares designs for the runtime checks: generate, run goa,
// compile, build and start the harness. A design that goa rejects, or whose
// generated code does not build, is not a verdict of a runtime property (C01
// owns that); it is counted and skipped.
package rt

import (
	"encoding/json"
	"fmt"
	"os"
	"path/filepath"
	"strconv"
	"strings"
	"sync"
	"testing"

	"verif/internal/gen"
	"verif/internal/kf"
	m "verif/internal/model"
	"verif/internal/pipeline"
	"verif/internal/stats"
)

// Built is a design with a running harness.
type Built struct {
	Index  int
	Design *m.Design
	Run    *pipeline.Run
	H      *pipeline.Harness
}

// EnvInt reads an integer from the environment.
func EnvInt(name string, def int) int {
	if v := os.Getenv(name); v != "" {
		if n, err := strconv.Atoi(v); err == nil {
			return n
		}
	}
	return def
}

// Tier returns "quick" or "thorough".
func Tier() string {
	if os.Getenv("VERIF_TIER") == "thorough" {
		return "thorough"
	}
	return "quick"
}

// ReplayDir returns the directory of a replay request ("" when this is a normal run).
func ReplayDir() string { return os.Getenv("VERIF_REPLAY_DIR") }

// Options configure Prepare.
type Options struct {
	Profile gen.Profile
	N       int
	Seed    int
	Race    bool
	// Keep decides whether a generated design is interesting for the check
	// (nil keeps everything). Rejected candidates are replaced by the next seed.
	Keep func(d *m.Design) bool
	// Tweak may adjust the design before it is lowered.
	Tweak func(d *m.Design)
	// AvoidIfOpen lists further known findings this campaign steers away from while they are open.
	AvoidIfOpen []string
	// Extra lists fixed designs checked in addition to the N generated ones.
	Extra []*m.Design
	// Generate replaces gen.Design(Profile) as the source of designs (seed -> design).
	Generate func(seed int) *m.Design
	// OnSkip is told about every accepted design whose generation or build
	// failed (normally C01's subject) so that a check whose property covers a
	// generation step (C10: the protocol buffer file) can judge the failure.
	OnSkip func(d *m.Design, out *pipeline.Outcome)
}

// Prepare generates, builds and starts n designs (or loads the one of a
// replay request). The caller must Close the session and the harnesses.
func Prepare(t *testing.T, tag string, o Options) (*pipeline.Session, []*Built) {
	sess, err := pipeline.NewSession(tag)
	if err != nil {
		t.Fatalf("INCONCLUSIVE: %v", err)
	}
	o.Profile.Avoid = gen.OpenQuirks()
	for _, id := range o.AvoidIfOpen {
		if kf.Open(id) {
			o.Profile.Avoid[id] = true
		}
	}
	var designs []*m.Design
	if rd := ReplayDir(); rd != "" {
		b, err := os.ReadFile(filepath.Join(rd, "design.json"))
		if err != nil {
			t.Fatalf("INCONCLUSIVE: replay: %v", err)
		}
		var d m.Design
		if err := json.Unmarshal(b, &d); err != nil {
			t.Fatalf("INCONCLUSIVE: replay: %v", err)
		}
		designs = []*m.Design{&d}
	} else {
		for i := 0; len(designs) < o.N && i < o.N*6; i++ {
			var d *m.Design
			if o.Generate != nil {
				d = o.Generate(o.Seed*1000003 + i)
			} else {
				d = gen.Design(o.Profile).Example(o.Seed*1000003 + i)
			}
			if o.Tweak != nil {
				o.Tweak(d)
			}
			if o.Keep != nil && !o.Keep(d) {
				stats.Class("design-not-kept")
				continue
			}
			designs = append(designs, d)
		}
		designs = append(designs, o.Extra...)
	}
	built := make([]*Built, len(designs))
	var wg sync.WaitGroup
	sem := make(chan struct{}, EnvInt("VERIF_BUILD_WORKERS", 12))
	var mu sync.Mutex
	for i, d := range designs {
		wg.Add(1)
		go func(i int, d *m.Design) {
			defer wg.Done()
			sem <- struct{}{}
			defer func() { <-sem }()
			out := sess.GenerateAndCompile(d, false)
			mu.Lock()
			for _, f := range d.Features {
				stats.Class("feature:" + f)
				if strings.HasPrefix(f, "excluded:") {
					stats.Excluded(strings.TrimPrefix(f, "excluded:"))
				}
			}
			mu.Unlock()
			if !out.Accepted && out.Failure == "" {
				stats.Class("design-rejected-by-goa")
				stats.Note("rejected: %s", strings.Join(out.Rejected, "; "))
				if i >= len(designs)-len(o.Extra) && ReplayDir() == "" {
					t.Errorf("INCONCLUSIVE: the fixed design %s is rejected by goa: %s", d.API.Name, strings.Join(out.Rejected, "; "))
				}
				return
			}
			if out.Failure != "" {
				stats.Class("design-skipped:" + out.Failure)
				stats.Note("skipped (%s, C01's subject): %s", out.Failure, firstLine(out.Sig))
				if o.OnSkip != nil {
					o.OnSkip(d, out)
				}
				if i >= len(designs)-len(o.Extra) && ReplayDir() == "" {
					// every fixed design builds on the unchanged tree; one that
					// stops building takes the shapes it was written for out of
					// this check: no verdict rather than a silent pass
					t.Errorf("INCONCLUSIVE: the fixed design %s does not build any more (%s: %s): that is C01's subject, this check has no verdict on the shapes it carries", d.API.Name, out.Failure, firstLine(out.Sig))
				}
				return
			}
			bin, diag, err := sess.BuildHarness(out.Run, o.Race)
			if err != nil {
				stats.Class("design-skipped:harness-build")
				stats.Note("harness does not build for %s: %s", out.Run.Name, firstLines(diag, 6))
				return
			}
			h, err := pipeline.StartHarness(bin)
			if err != nil {
				stats.Class("design-skipped:harness-start")
				stats.Note("harness does not start for %s: %v", out.Run.Name, err)
				return
			}
			stats.Class("design-built")
			built[i] = &Built{Index: i, Design: d, Run: out.Run, H: h}
		}(i, d)
	}
	wg.Wait()
	var out []*Built
	for _, b := range built {
		if b != nil {
			out = append(out, b)
		}
	}
	return sess, out
}

// CloseAll stops the harnesses.
func CloseAll(bs []*Built) {
	for _, b := range bs {
		if b != nil && b.H != nil {
			b.H.Close()
		}
	}
}

// SaveReplay writes the design and the failing case where the driver picks
// replays up ($VERIF_REPLAY_OUT) and returns the directory.
func SaveReplay(b *Built, name string, failing any) string {
	dir := os.Getenv("VERIF_REPLAY_OUT")
	if dir == "" {
		dir = filepath.Join(os.TempDir(), "verif-replay")
	}
	dir = filepath.Join(dir, sanitize(name))
	extra := map[string][]byte{}
	if failing != nil {
		cb, _ := json.MarshalIndent(failing, "", " ")
		extra["case.json"] = cb
	}
	_ = b.Run.SaveReplay(dir, extra)
	return dir
}

// LoadReplayCase reads case.json of a replay request into v; false when absent.
func LoadReplayCase(v any) bool {
	rd := ReplayDir()
	if rd == "" {
		return false
	}
	b, err := os.ReadFile(filepath.Join(rd, "case.json"))
	if err != nil {
		return false
	}
	return json.Unmarshal(b, v) == nil
}

func sanitize(s string) string {
	var b strings.Builder
	for _, r := range s {
		if (r >= 'a' && r <= 'z') || (r >= 'A' && r <= 'Z') || (r >= '0' && r <= '9') || r == '-' || r == '_' {
			b.WriteRune(r)
		} else {
			b.WriteRune('_')
		}
	}
	return b.String()
}

func firstLine(s string) string {
	if i := strings.Index(s, "\n"); i >= 0 {
		return s[:i]
	}
	return s
}

func firstLines(s string, n int) string {
	ls := strings.Split(s, "\n")
	if len(ls) > n {
		ls = ls[:n]
	}
	return strings.Join(ls, "\n")
}

// MethodLabel names a method for logs and sub-tests.
func MethodLabel(b *Built, s *m.Service, meth *m.Method) string {
	return fmt.Sprintf("%s/%s.%s", b.Run.Name, sanitize(s.Name), sanitize(meth.Name))
}

// BuildOne builds and starts a hand-written design (known-finding probes).
func BuildOne(t *testing.T, tag string, d *m.Design) (*pipeline.Session, *pipeline.Harness) {
	return buildOne(t, tag, d, false)
}

// BuildOneRace is BuildOne with a harness built with the race detector.
func BuildOneRace(t *testing.T, tag string, d *m.Design) (*pipeline.Session, *pipeline.Harness) {
	return buildOne(t, tag, d, true)
}

func buildOne(t *testing.T, tag string, d *m.Design, race bool) (*pipeline.Session, *pipeline.Harness) {
	sess, err := pipeline.NewSession(tag)
	if err != nil {
		t.Fatalf("INCONCLUSIVE: %v", err)
	}
	out := sess.GenerateAndCompile(d, false)
	if !out.Accepted || out.Failure != "" {
		sess.Close()
		t.Fatalf("INCONCLUSIVE: probe design: %s", out.Describe())
	}
	bin, diag, err := sess.BuildHarness(out.Run, race)
	if err != nil {
		sess.Close()
		t.Fatalf("INCONCLUSIVE: probe harness: %v %s", err, diag)
	}
	h, err := pipeline.StartHarness(bin)
	if err != nil {
		sess.Close()
		t.Fatalf("INCONCLUSIVE: %v", err)
	}
	return sess, h
}

// Obj builds an inline object attribute.
func Obj(fields ...*m.Field) *m.Attr { return &m.Attr{Type: &m.Type{Kind: m.Object, Fields: fields}} }

// Fld builds a field.
func Fld(name string, a *m.Attr, req bool) *m.Field {
	return &m.Field{Name: name, Attr: a, Required: req}
}

// Probe runs f unless VERIF_PROBE_ONLY selects another finding, and records the outcome.
func Probe(id string, f func() (bool, string)) {
	if only := os.Getenv("VERIF_PROBE_ONLY"); only != "" && only != id {
		return
	}
	hit, what := f()
	stats.ProbeResult(id, hit, what)
}
