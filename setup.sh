#!/bin/sh
# Builds the framework offline from files on disk only.
set -e
cd "$(dirname "$0")"
export GOFLAGS=-mod=mod GOPROXY=off GOSUMDB=off GOTOOLCHAIN=local
mkdir -p bin evidence
go build -o bin/verif ./cmd/verif
# warm the build cache for the check packages (compile only)
go vet ./cmd/... >/dev/null 2>&1 || true
for p in checks/*/; do go test -c -vet=off -o /dev/null "./$p" >/dev/null 2>&1 || true; done
echo setup done
